// Package replica is a test client: a real document.Document driven through
// the real YorkieService RPCs, with a sync that can be split into
// build-request / send / deliver-response so that retries, lost responses and
// edits made while a request is in flight can be expressed.
//
// It mirrors client.Client's attachDocument / pushPullChanges / detachDocument
// / Remove step by step (see client/client.go); fidelity against the real
// client is checked by the "realclient" cases of C01.
package replica

import (
	"context"
	"errors"
	"fmt"

	"connectrpc.com/connect"

	"github.com/yorkie-team/yorkie/api/converter"
	"github.com/yorkie-team/yorkie/api/types"
	api "github.com/yorkie-team/yorkie/api/yorkie/v1"
	"github.com/yorkie-team/yorkie/api/yorkie/v1/v1connect"
	"github.com/yorkie-team/yorkie/pkg/attachable"
	"github.com/yorkie-team/yorkie/pkg/document"
	"github.com/yorkie-team/yorkie/pkg/document/change"
	"github.com/yorkie-team/yorkie/pkg/document/json"
	"github.com/yorkie-team/yorkie/pkg/document/presence"
	"github.com/yorkie-team/yorkie/pkg/document/time"
	"github.com/yorkie-team/yorkie/pkg/key"
)

// Observer sees every pack that crosses the wire for this replica.
type Observer interface {
	// OnRequest is called with the request pack before it is sent.
	OnRequest(r *Replica, kind string, pack *change.Pack)
	// OnResponse is called with the raw response pack before it is applied.
	OnResponse(r *Replica, kind string, req *change.Pack, pb *api.ChangePack, err error)
	// OnApplied is called after a response pack was applied to the document.
	OnApplied(r *Replica, kind string, pack *change.Pack)
}

// Replica is one client + one document.
type Replica struct {
	Name      string
	APIKey    string
	ClientKey string
	RPC       v1connect.YorkieServiceClient
	ID        time.ActorID
	Activated bool

	DocKey    key.Key
	Doc       *document.Document
	DocID     string
	DisableGC bool
	Obs       Observer

	// Pending is a request built by SyncBegin and not yet delivered.
	Pending *Pending
}

// Pending is an in-flight push-pull.
type Pending struct {
	Req      *api.PushPullChangesRequest
	ReqPack  *change.Pack
	Resp     *api.ChangePack
	Err      error
	Sent     bool
	PushOnly bool
}

// New makes a replica that is not yet activated.
func New(name, apiKey, clientKey string, rpc v1connect.YorkieServiceClient) *Replica {
	return &Replica{Name: name, APIKey: apiKey, ClientKey: clientKey, RPC: rpc}
}

func shard[T any](req *connect.Request[T], keys ...string) *connect.Request[T] {
	s := ""
	for i, k := range keys {
		if i > 0 {
			s += "/"
		}
		s += k
	}
	req.Header().Add(types.ShardKey, s)
	return req
}

// Activate registers the client.
func (r *Replica) Activate(ctx context.Context) error {
	res, err := r.RPC.ActivateClient(ctx, shard(connect.NewRequest(&api.ActivateClientRequest{
		ClientKey: r.ClientKey,
	}), r.APIKey, r.ClientKey))
	if err != nil {
		return err
	}
	id, err := time.ActorIDFromHex(res.Msg.ClientId)
	if err != nil {
		return err
	}
	r.ID = id
	r.Activated = true
	return nil
}

// Deactivate deactivates the client on the server (synchronously).
func (r *Replica) Deactivate(ctx context.Context) error {
	_, err := r.RPC.DeactivateClient(ctx, shard(connect.NewRequest(&api.DeactivateClientRequest{
		ClientId:    r.ID.String(),
		Synchronous: true,
	}), r.APIKey, r.ClientKey))
	if err != nil {
		return err
	}
	r.Activated = false
	if r.Doc != nil && r.Doc.Status() == document.StatusAttached {
		// What a real client sees: nothing; its document object stays as is.
		r.Doc.SetStatus(document.StatusDetached)
	}
	return nil
}

// AttachOpts mirrors client.AttachOptions.
type AttachOpts struct {
	Presence        map[string]string
	DisableGC       bool
	DisablePresence bool
	DocOpts         []document.Option
	SchemaKey       string
}

// Attach creates a new Document for docKey and attaches it.
func (r *Replica) Attach(ctx context.Context, docKey key.Key, o AttachOpts) error {
	d := document.New(docKey, o.DocOpts...)
	return r.AttachDoc(ctx, d, o)
}

// AttachDoc attaches an existing (detached) document object.
func (r *Replica) AttachDoc(ctx context.Context, d *document.Document, o AttachOpts) error {
	if !r.Activated {
		return errors.New("replica: not activated")
	}
	d.SetActor(r.ID)
	if !o.DisablePresence {
		if err := d.Update(func(_ *json.Object, p *presence.Presence) error {
			p.Initialize(o.Presence)
			return nil
		}); err != nil {
			return err
		}
	}
	reqPack := d.CreateChangePack()
	pb, err := converter.ToChangePack(reqPack)
	if err != nil {
		return err
	}
	r.Doc = d
	r.DocKey = d.Key()
	r.DisableGC = o.DisableGC
	if r.Obs != nil {
		r.Obs.OnRequest(r, "attach", reqPack)
	}
	res, err := r.RPC.AttachDocument(ctx, shard(connect.NewRequest(&api.AttachDocumentRequest{
		ClientId:        r.ID.String(),
		ChangePack:      pb,
		SchemaKey:       o.SchemaKey,
		DisableGc:       o.DisableGC,
		DisablePresence: o.DisablePresence,
	}), r.APIKey, d.Key().String()))
	if err != nil {
		if r.Obs != nil {
			r.Obs.OnResponse(r, "attach", reqPack, nil, err)
		}
		return err
	}
	if r.Obs != nil {
		r.Obs.OnResponse(r, "attach", reqPack, res.Msg.ChangePack, nil)
	}
	pack, err := converter.FromChangePack(res.Msg.ChangePack)
	if err != nil {
		return err
	}
	d.MaxSizeLimit = int(res.Msg.MaxSizePerDocument)
	if res.Msg.SchemaRules != nil {
		d.SchemaRules = converter.FromRules(res.Msg.SchemaRules)
	}
	d.SetDisableGC(o.DisableGC)
	d.SetDisablePresence(res.Msg.DisablePresence)
	if res.Msg.DisablePresence && !o.DisablePresence {
		d.InternalDocument().ResetPresences()
	}
	r.Doc = d
	r.DocKey = d.Key()
	r.DocID = res.Msg.DocumentId
	r.DisableGC = o.DisableGC
	if err := d.ApplyChangePack(pack); err != nil {
		return fmt.Errorf("apply attach response: %w", err)
	}
	if r.Obs != nil {
		r.Obs.OnApplied(r, "attach", pack)
	}
	if d.Status() == attachable.StatusRemoved {
		return nil
	}
	d.SetStatus(attachable.StatusAttached)
	if err := d.ClearHistory(); err != nil {
		return err
	}
	return nil
}

// SyncBegin builds the push-pull request from the current local changes.
func (r *Replica) SyncBegin(pushOnly bool) error {
	if r.Pending != nil {
		return errors.New("replica: sync already pending")
	}
	reqPack := r.Doc.CreateChangePack()
	pb, err := converter.ToChangePack(reqPack)
	if err != nil {
		return err
	}
	r.Pending = &Pending{
		ReqPack:  reqPack,
		PushOnly: pushOnly,
		Req: &api.PushPullChangesRequest{
			ClientId:   r.ID.String(),
			DocumentId: r.DocID,
			ChangePack: pb,
			PushOnly:   pushOnly,
			DisableGc:  r.DisableGC,
		},
	}
	return nil
}

// SyncSend sends the pending request (may be called repeatedly = retry of the
// identical pack). The response is stored, not applied.
func (r *Replica) SyncSend(ctx context.Context) error {
	p := r.Pending
	if p == nil {
		return errors.New("replica: nothing pending")
	}
	if r.Obs != nil {
		r.Obs.OnRequest(r, "pushpull", p.ReqPack)
	}
	res, err := r.RPC.PushPullChanges(ctx, shard(connect.NewRequest(p.Req), r.APIKey, r.DocKey.String()))
	p.Sent = true
	if err != nil {
		p.Err = err
		p.Resp = nil
		if r.Obs != nil {
			r.Obs.OnResponse(r, "pushpull", p.ReqPack, nil, err)
		}
		return err
	}
	p.Err = nil
	p.Resp = res.Msg.ChangePack
	if r.Obs != nil {
		r.Obs.OnResponse(r, "pushpull", p.ReqPack, p.Resp, nil)
	}
	return nil
}

// SendRaw sends a push-pull request as it is and hands the response back without applying it: a
// retransmission of a request whose original is still being handled (client-side timeout,
// retrying proxy). The caller takes req from Pending.Req before it starts the original.
func (r *Replica) SendRaw(ctx context.Context, req *api.PushPullChangesRequest) (*api.ChangePack, error) {
	res, err := r.RPC.PushPullChanges(ctx, shard(connect.NewRequest(req), r.APIKey, r.DocKey.String()))
	if err != nil {
		return nil, err
	}
	return res.Msg.ChangePack, nil
}

// SyncDrop forgets the pending request and its response (response lost).
func (r *Replica) SyncDrop() { r.Pending = nil }

// SyncEnd applies the stored response.
func (r *Replica) SyncEnd() error {
	p := r.Pending
	r.Pending = nil
	if p == nil || p.Resp == nil {
		return errors.New("replica: no response to deliver")
	}
	pack, err := converter.FromChangePack(p.Resp)
	if err != nil {
		return err
	}
	if err := r.Doc.ApplyChangePack(pack); err != nil {
		return fmt.Errorf("apply pushpull response: %w", err)
	}
	if r.Obs != nil {
		r.Obs.OnApplied(r, "pushpull", pack)
	}
	return nil
}

// Sync is begin+send+end.
func (r *Replica) Sync(ctx context.Context, pushOnly bool) error {
	if err := r.SyncBegin(pushOnly); err != nil {
		return err
	}
	if err := r.SyncSend(ctx); err != nil {
		r.Pending = nil
		return err
	}
	return r.SyncEnd()
}

// Detach mirrors client.detachDocument.
func (r *Replica) Detach(ctx context.Context) error {
	d := r.Doc
	if err := d.Update(func(_ *json.Object, p *presence.Presence) error {
		p.Clear()
		return nil
	}); err != nil {
		return err
	}
	reqPack := d.CreateChangePack()
	pb, err := converter.ToChangePack(reqPack)
	if err != nil {
		return err
	}
	if r.Obs != nil {
		r.Obs.OnRequest(r, "detach", reqPack)
	}
	res, err := r.RPC.DetachDocument(ctx, shard(connect.NewRequest(&api.DetachDocumentRequest{
		ClientId:   r.ID.String(),
		DocumentId: r.DocID,
		ChangePack: pb,
	}), r.APIKey, d.Key().String()))
	if err != nil {
		if r.Obs != nil {
			r.Obs.OnResponse(r, "detach", reqPack, nil, err)
		}
		return err
	}
	if r.Obs != nil {
		r.Obs.OnResponse(r, "detach", reqPack, res.Msg.ChangePack, nil)
	}
	pack, err := converter.FromChangePack(res.Msg.ChangePack)
	if err != nil {
		return err
	}
	if err := d.ApplyChangePack(pack); err != nil {
		return fmt.Errorf("apply detach response: %w", err)
	}
	if r.Obs != nil {
		r.Obs.OnApplied(r, "detach", pack)
	}
	if d.Status() != document.StatusRemoved {
		d.SetStatus(document.StatusDetached)
	}
	return nil
}

// Remove mirrors client.Remove.
func (r *Replica) Remove(ctx context.Context) error {
	d := r.Doc
	reqPack := d.CreateChangePack()
	pb, err := converter.ToChangePack(reqPack)
	if err != nil {
		return err
	}
	pb.IsRemoved = true
	if r.Obs != nil {
		r.Obs.OnRequest(r, "remove", reqPack)
	}
	res, err := r.RPC.RemoveDocument(ctx, shard(connect.NewRequest(&api.RemoveDocumentRequest{
		ClientId:   r.ID.String(),
		DocumentId: r.DocID,
		ChangePack: pb,
	}), r.APIKey, d.Key().String()))
	if err != nil {
		if r.Obs != nil {
			r.Obs.OnResponse(r, "remove", reqPack, nil, err)
		}
		return err
	}
	if r.Obs != nil {
		r.Obs.OnResponse(r, "remove", reqPack, res.Msg.ChangePack, nil)
	}
	pack, err := converter.FromChangePack(res.Msg.ChangePack)
	if err != nil {
		return err
	}
	return d.ApplyChangePack(pack)
}

// Update runs fn on the document; a panic of the proxies is turned into an error.
func (r *Replica) Update(fn func(root *json.Object, p *presence.Presence) error) (err error) {
	defer func() {
		if x := recover(); x != nil {
			err = fmt.Errorf("PANIC in Update: %v", x)
		}
	}()
	return r.Doc.Update(fn)
}
