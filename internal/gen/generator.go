package gen

import (
	"fmt"
	"math/rand"
)

// Profile weights the generator.
type Profile struct {
	Obj, Arr, Txt, Cnt, Tree int // container kind weights
	DeleteBias               int // 0..100: extra probability of picking a delete/overwrite/move op
	NewContainers            int // 0..100: probability that a set/add creates a container
	MaxDepth                 int
	Unicode                  bool
	NoMove                   bool
	NoArrSet                 bool
	NoStyle                  bool
	NoDedup                  bool
	MaxText                  int
	PrimOnly                 bool // objects: only primitive sets on the generic keys, no deletes, no containers
	// TreeMixed: blocks get inline elements between their texts (<p>ab<b>x</b>cd</p>) and
	// edits address every cursor position inside a block, element boundaries included.
	// Whether a generated range stays inside one parent is for the reference model to say.
	TreeMixed bool
	// StyleBias: 0..100, extra probability that a tree edit is a style / remove-style call
	StyleBias int
}

// DefaultProfile is the C01 mix.
func DefaultProfile() Profile {
	return Profile{Obj: 3, Arr: 4, Txt: 4, Cnt: 1, Tree: 3, DeleteBias: 20, NewContainers: 15, MaxDepth: 3, Unicode: true, MaxText: 24}
}

var objKeys = []string{"a", "b", "c", "d"}

// RootKeys are the fixed container keys created by InitEdits.
var RootKeys = []string{"arr", "txt", "cnt", "cntl", "tree", "obj"}

// InitEdits builds the standard skeleton (one Update).
func InitEdits() []Edit {
	return []Edit{
		{Op: "obj.set", K: "arr", V: &Val{T: "arr"}},
		{Op: "obj.set", K: "txt", V: &Val{T: "text"}},
		{Op: "obj.set", K: "cnt", V: &Val{T: "cnti", I: 0}},
		{Op: "obj.set", K: "cntl", V: &Val{T: "cntl", I: 0}},
		{Op: "obj.set", K: "tree", V: &Val{T: "tree", S: "ab"}},
		{Op: "obj.set", K: "obj", V: &Val{T: "obj"}},
	}
}

var asciiAlpha = []rune("abcdefghijklmnopqrstuvwxyzABCDEFGH0123456789 ")
var uniAlpha = []rune{'é', '한', '😀', '𝄞', 'ß', '\n', '"', '\\', '<', '&', 'Z'}

func (p Profile) randText(r *rand.Rand, min, max int) string {
	n := min
	if max > min {
		n += r.Intn(max - min + 1)
	}
	rs := make([]rune, 0, n)
	for i := 0; i < n; i++ {
		if p.Unicode && r.Intn(6) == 0 {
			rs = append(rs, uniAlpha[r.Intn(len(uniAlpha))])
		} else {
			rs = append(rs, asciiAlpha[r.Intn(len(asciiAlpha))])
		}
	}
	return string(rs)
}

func randASCII(r *rand.Rand, min, max int) string {
	n := min
	if max > min {
		n += r.Intn(max - min + 1)
	}
	rs := make([]rune, n)
	for i := range rs {
		rs[i] = asciiAlpha[r.Intn(26)]
	}
	return string(rs)
}

func (p Profile) randPrim(r *rand.Rand) *Val {
	switch r.Intn(10) {
	case 0:
		return &Val{T: "null"}
	case 1:
		return &Val{T: "bool", B: r.Intn(2) == 0}
	case 2, 3:
		return &Val{T: "int", I: int64(int32(r.Uint32()>>uint(r.Intn(32))) - 5)}
	case 4:
		return &Val{T: "long", I: int64(r.Uint64()>>uint(r.Intn(64))) - 7}
	case 5:
		fs := []float64{0, -1.5, 3.25, 1e21, 1e-7, 123456789.125, float64(r.Intn(1000)) / 8}
		return &Val{T: "double", F: fs[r.Intn(len(fs))]}
	case 6:
		b := make([]byte, r.Intn(5))
		r.Read(b)
		return &Val{T: "bytes", Y: b}
	case 7:
		return &Val{T: "date", I: int64(r.Intn(2000000000)) * 1000}
	default:
		return &Val{T: "str", S: p.randText(r, 0, 6)}
	}
}

func (p Profile) randContainerVal(r *rand.Rand, inArray bool) *Val {
	ts := []string{"obj", "arr", "text", "cnti", "cntl"}
	if !inArray {
		ts = append(ts, "tree")
		if !p.NoDedup {
			ts = append(ts, "dedup")
		}
	}
	t := ts[r.Intn(len(ts))]
	v := &Val{T: t}
	switch t {
	case "cnti":
		v.I = int64(r.Intn(100))
	case "cntl":
		v.I = int64(r.Intn(100))
	case "tree":
		v.S = randASCII(r, 0, 3)
	}
	return v
}

var attrKeys = []string{"b", "i", "c"}
var attrVals = []string{"1", "2", "red", ""}

func randAttrs(r *rand.Rand) map[string]string {
	n := 1 + r.Intn(2)
	m := map[string]string{}
	for i := 0; i < n; i++ {
		m[attrKeys[r.Intn(len(attrKeys))]] = attrVals[r.Intn(len(attrVals))]
	}
	return m
}

// boundaries returns the code-unit offsets that do not split a surrogate pair.
func boundaries(u []uint16) []int {
	out := make([]int, 0, len(u)+1)
	for i := 0; i <= len(u); i++ {
		if i > 0 && i < len(u) && u[i-1] >= 0xD800 && u[i-1] <= 0xDBFF && u[i] >= 0xDC00 && u[i] <= 0xDFFF {
			continue
		}
		out = append(out, i)
	}
	return out
}

func pickRange(r *rand.Rand, bs []int, maxSpan int) (int, int) {
	a := r.Intn(len(bs))
	b := a + r.Intn(maxSpan+1)
	if b >= len(bs) {
		b = len(bs) - 1
	}
	return bs[a], bs[b]
}

func (p Profile) weightOf(kind string) int {
	switch kind {
	case "obj":
		return p.Obj
	case "arr":
		return p.Arr
	case "txt":
		return p.Txt
	case "cnt":
		return p.Cnt
	case "tree":
		return p.Tree
	}
	return 0
}

// Next picks a valid edit for the given visible state.
func (p Profile) Next(r *rand.Rand, conts []Cont, actor string) Edit {
	total := 0
	for _, c := range conts {
		w := p.weightOf(c.Kind)
		if c.Depth > 1 {
			w = (w + 1) / 2
		}
		total += w
	}
	if total == 0 {
		return Edit{Op: "obj.set", K: "a", V: p.randPrim(r)}
	}
	x := r.Intn(total)
	var c Cont
	for _, cc := range conts {
		w := p.weightOf(cc.Kind)
		if cc.Depth > 1 {
			w = (w + 1) / 2
		}
		if x < w {
			c = cc
			break
		}
		x -= w
	}
	del := r.Intn(100) < p.DeleteBias
	switch c.Kind {
	case "obj":
		return p.nextObj(r, c, del)
	case "arr":
		return p.nextArr(r, c, del)
	case "txt":
		return p.nextTxt(r, c, del)
	case "cnt":
		return p.nextCnt(r, c, actor)
	case "tree":
		return p.nextTree(r, c, del)
	}
	panic("unreachable")
}

func (p Profile) nextObj(r *rand.Rand, c Cont, del bool) Edit {
	if p.PrimOnly {
		return Edit{Op: "obj.set", Path: c.Path, K: objKeys[r.Intn(len(objKeys))], V: p.randPrim(r)}
	}
	isRoot := len(c.Path) == 0
	// deletable keys: at root never delete the skeleton keys too often
	if (del || r.Intn(4) == 0) && len(c.Keys) > 0 {
		k := c.Keys[r.Intn(len(c.Keys))]
		skeleton := false
		if isRoot {
			for _, rk := range RootKeys {
				if rk == k {
					skeleton = true
				}
			}
		}
		if !skeleton || r.Intn(12) == 0 {
			return Edit{Op: "obj.del", Path: c.Path, K: k}
		}
	}
	k := objKeys[r.Intn(len(objKeys))]
	if isRoot && r.Intn(25) == 0 {
		// re-create a skeleton container (concurrent container replacement)
		k = RootKeys[r.Intn(len(RootKeys))]
		for _, ie := range InitEdits() {
			if ie.K == k {
				e := ie
				return e
			}
		}
	}
	if c.Depth < p.MaxDepth && r.Intn(100) < p.NewContainers {
		return Edit{Op: "obj.set", Path: c.Path, K: k, V: p.randContainerVal(r, false)}
	}
	return Edit{Op: "obj.set", Path: c.Path, K: k, V: p.randPrim(r)}
}

func (p Profile) nextArr(r *rand.Rand, c Cont, del bool) Edit {
	n := c.Len
	if n == 0 {
		return Edit{Op: "arr.add", Path: c.Path, V: p.arrVal(r, c)}
	}
	type alt struct {
		w  int
		op string
	}
	alts := []alt{{4, "arr.add"}, {3, "arr.ins"}, {2, "arr.del"}}
	if !p.NoMove && n >= 2 {
		alts = append(alts, alt{2, "arr.move"}, alt{1, "arr.front"}, alt{1, "arr.last"}, alt{2, "arr.before"})
	}
	if !p.NoArrSet {
		alts = append(alts, alt{2, "arr.set"})
	}
	if del {
		alts = []alt{{3, "arr.del"}}
		if !p.NoMove && n >= 2 {
			alts = append(alts, alt{2, "arr.move"}, alt{1, "arr.last"}, alt{1, "arr.front"})
		}
		if !p.NoArrSet {
			alts = append(alts, alt{1, "arr.set"})
		}
	}
	if n > 8 {
		alts = append(alts, alt{6, "arr.del"})
	}
	tot := 0
	for _, a := range alts {
		tot += a.w
	}
	x := r.Intn(tot)
	op := ""
	for _, a := range alts {
		if x < a.w {
			op = a.op
			break
		}
		x -= a.w
	}
	switch op {
	case "arr.add":
		return Edit{Op: op, Path: c.Path, V: p.arrVal(r, c)}
	case "arr.ins":
		return Edit{Op: op, Path: c.Path, I: r.Intn(n), V: p.intOrStr(r)}
	case "arr.del":
		i := r.Intn(n)
		if r.Intn(3) == 0 {
			i = n - 1 // deleting the last item is a known sore spot
		}
		return Edit{Op: op, Path: c.Path, I: i}
	case "arr.move", "arr.before":
		i := r.Intn(n)
		j := r.Intn(n)
		if i == j {
			j = (j + 1) % n
		}
		return Edit{Op: op, Path: c.Path, I: i, J: j}
	case "arr.front", "arr.last":
		return Edit{Op: op, Path: c.Path, I: r.Intn(n)}
	case "arr.set":
		return Edit{Op: op, Path: c.Path, I: r.Intn(n), V: p.intOrStr(r)}
	}
	panic("unreachable")
}

func (p Profile) intOrStr(r *rand.Rand) *Val {
	if r.Intn(2) == 0 {
		return &Val{T: "str", S: randASCII(r, 1, 3)}
	}
	return &Val{T: "int", I: int64(r.Intn(1000))}
}

func (p Profile) arrVal(r *rand.Rand, c Cont) *Val {
	if c.Depth < p.MaxDepth && r.Intn(100) < p.NewContainers {
		return p.randContainerVal(r, true)
	}
	if r.Intn(3) == 0 {
		return p.randPrim(r)
	}
	return p.intOrStr(r)
}

func (p Profile) nextTxt(r *rand.Rand, c Cont, del bool) Edit {
	bs := boundaries(c.U16)
	n := len(c.U16)
	max := p.MaxText
	if max == 0 {
		max = 24
	}
	if n == 0 {
		return Edit{Op: "txt.edit", Path: c.Path, I: 0, J: 0, S: p.randText(r, 1, 4)}
	}
	k := r.Intn(10)
	if del || n > max {
		k = 4 + r.Intn(3)
	}
	switch {
	case k < 4: // insert
		at := bs[r.Intn(len(bs))]
		e := Edit{Op: "txt.edit", Path: c.Path, I: at, J: at, S: p.randText(r, 1, 4)}
		if !p.NoStyle && r.Intn(5) == 0 {
			e.A = randAttrs(r)
		}
		return e
	case k < 6: // delete
		a, b := pickRange(r, bs, 4)
		if a == b {
			if b < n {
				b = bs[indexOf(bs, b)+1]
			} else if a > 0 {
				a = bs[indexOf(bs, a)-1]
			}
		}
		return Edit{Op: "txt.edit", Path: c.Path, I: a, J: b, S: ""}
	case k < 8: // replace
		a, b := pickRange(r, bs, 4)
		return Edit{Op: "txt.edit", Path: c.Path, I: a, J: b, S: p.randText(r, 1, 3)}
	default:
		if p.NoStyle {
			at := bs[r.Intn(len(bs))]
			return Edit{Op: "txt.edit", Path: c.Path, I: at, J: at, S: p.randText(r, 1, 2)}
		}
		a, b := pickRange(r, bs, 6)
		if a == b {
			if b < n {
				b = bs[indexOf(bs, b)+1]
			} else if a > 0 {
				a = bs[indexOf(bs, a)-1]
			}
		}
		return Edit{Op: "txt.style", Path: c.Path, I: a, J: b, A: randAttrs(r)}
	}
}

func indexOf(bs []int, v int) int {
	for i, b := range bs {
		if b == v {
			return i
		}
	}
	return 0
}

func (p Profile) nextCnt(r *rand.Rand, c Cont, actor string) Edit {
	switch c.CntType {
	case "dedup":
		return Edit{Op: "cnt.inc", Path: c.Path, S: fmt.Sprintf("u%d", r.Intn(6))}
	case "long":
		ns := []int64{1, -1, 5, 1 << 40, -(1 << 41), 9223372036854775807, int64(r.Intn(1000))}
		return Edit{Op: "cnt.inc", Path: c.Path, N: ns[r.Intn(len(ns))]}
	default:
		ns := []int64{1, -1, 7, 2147483647, -2147483648, int64(r.Intn(1000))}
		return Edit{Op: "cnt.inc", Path: c.Path, N: ns[r.Intn(len(ns))]}
	}
}

// nextTree stays inside the structure-preserving domain: text edits within one
// block, whole-block insert/delete, style on whole blocks.
func (p Profile) nextTree(r *rand.Rand, c Cont, del bool) Edit {
	var blocks []Block
	for _, b := range c.Blocks {
		if b.Type != "text" {
			blocks = append(blocks, b)
		}
	}
	newBlock := func() TN {
		ty := []string{"p", "p", "h"}[r.Intn(3)]
		n := TN{Type: ty}
		if t := randASCII(r, 0, 3); t != "" {
			n.Kids = []TN{{Type: "text", Text: t}}
		}
		if !p.NoStyle && r.Intn(4) == 0 {
			n.Attrs = randAttrs(r)
		}
		return n
	}
	if len(blocks) == 0 {
		return Edit{Op: "tree.edit", Path: c.Path, I: c.TreeLen, J: c.TreeLen, T: []TN{newBlock()}}
	}
	k := r.Intn(10)
	if del {
		k = 4 + r.Intn(4)
	}
	if len(blocks) > 6 {
		k = 6
	}
	if p.StyleBias > 0 && !p.NoStyle && r.Intn(100) < p.StyleBias {
		k = 9
	}
	b := blocks[r.Intn(len(blocks))]
	if p.TreeMixed && len(c.Parents) > 0 && r.Intn(100) < 65 {
		// any cursor position directly inside some element; ranges are taken between two
		// positions of the SAME element, so they never cross a tag (no merge)
		tp := c.Parents[r.Intn(len(c.Parents))]
		k1 := r.Intn(len(tp.Bounds))
		at := tp.Bounds[k1]
		switch x := r.Intn(10); {
		case x < 3: // an inline element
			n := TN{Type: []string{"b", "i"}[r.Intn(2)]}
			if t := randASCII(r, 0, 2); t != "" {
				n.Kids = []TN{{Type: "text", Text: t}}
			}
			return Edit{Op: "tree.edit", Path: c.Path, I: at, J: at, T: []TN{n}}
		case (x < 6 || del && x < 8) && k1 < len(tp.Bounds)-1: // delete (or replace) a short range
			k2 := k1 + 1 + r.Intn(minInt(3, len(tp.Bounds)-1-k1))
			e := Edit{Op: "tree.edit", Path: c.Path, I: at, J: tp.Bounds[k2]}
			if r.Intn(4) == 0 {
				e.T = []TN{{Type: "text", Text: randASCII(r, 1, 2)}}
			}
			return e
		default: // text
			return Edit{Op: "tree.edit", Path: c.Path, I: at, J: at, T: []TN{{Type: "text", Text: randASCII(r, 1, 3)}}}
		}
	}
	switch {
	case k < 3 && b.OnlyTxt: // insert text inside block
		at := b.Start + 1 + r.Intn(b.TextLen+1)
		return Edit{Op: "tree.edit", Path: c.Path, I: at, J: at, T: []TN{{Type: "text", Text: randASCII(r, 1, 3)}}}
	case k < 5 && b.OnlyTxt && b.TextLen > 0: // delete / replace text inside block
		a := r.Intn(b.TextLen)
		z := a + 1 + r.Intn(minInt(3, b.TextLen-a))
		e := Edit{Op: "tree.edit", Path: c.Path, I: b.Start + 1 + a, J: b.Start + 1 + z}
		if r.Intn(3) == 0 {
			e.T = []TN{{Type: "text", Text: randASCII(r, 1, 2)}}
		}
		return e
	case k < 6: // insert a block at a boundary
		at := b.Start
		if r.Intn(2) == 0 {
			at = b.Start + b.Size
		}
		return Edit{Op: "tree.edit", Path: c.Path, I: at, J: at, T: []TN{newBlock()}}
	case k < 8: // delete whole block(s)
		e := Edit{Op: "tree.edit", Path: c.Path, I: b.Start, J: b.Start + b.Size}
		if r.Intn(3) == 0 {
			e.T = []TN{newBlock()} // replace
		}
		return e
	default:
		if p.NoStyle {
			at := b.Start
			return Edit{Op: "tree.edit", Path: c.Path, I: at, J: at, T: []TN{newBlock()}}
		}
		// one call in three covers this block AND its right neighbours (whole elements only:
		// still structure-preserving): one operation then styles / un-styles several nodes
		end := b.Start + b.Size
		if r.Intn(3) == 0 {
			for _, nb := range blocks {
				if nb.Start == end {
					end = nb.Start + nb.Size
					if r.Intn(2) == 0 {
						break
					}
				}
			}
		}
		if len(b.Attrs) > 0 && r.Intn(3) == 0 {
			return Edit{Op: "tree.rmstyle", Path: c.Path, I: b.Start, J: end, Keys: []string{b.Attrs[r.Intn(len(b.Attrs))]}}
		}
		return Edit{Op: "tree.style", Path: c.Path, I: b.Start, J: end, A: randAttrs(r)}
	}
}

func minInt(a, b int) int {
	if a < b {
		return a
	}
	return b
}
