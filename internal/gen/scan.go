package gen

import (
	"fmt"
	"sort"
	"unicode/utf16"

	"github.com/yorkie-team/yorkie/pkg/document/crdt"
)

// Block is a direct child element of a tree root, as seen through the index tree.
type Block struct {
	Start   int // index just before the open tag
	Size    int // padded size (open + content + close)
	TextLen int // size of the content when all children are text
	OnlyTxt bool
	Type    string
	Attrs   []string
}

// TParent is one non-root element of a tree with the indexes of all cursor positions
// directly inside it (in front of / behind each child element, between any two characters
// of its texts), ascending. Two of them delimit a range that stays inside this element.
type TParent struct {
	Bounds []int
}

// Cont is one live container reachable from the root.
type Cont struct {
	Path      []string
	Kind      string // obj arr txt cnt tree
	Keys      []string
	KeyKinds  map[string]string
	Len       int
	ElemKinds []string
	U16       []uint16
	CntType   string
	Blocks    []Block
	Parents   []TParent
	TreeLen   int
	Depth     int
}

func kindOf(e crdt.Element) string {
	switch e.(type) {
	case *crdt.Object:
		return "obj"
	case *crdt.Array:
		return "arr"
	case *crdt.Text:
		return "txt"
	case *crdt.Counter:
		return "cnt"
	case *crdt.Tree:
		return "tree"
	case *crdt.Primitive:
		return "prim"
	}
	return "?"
}

// Scan lists the live containers of a document root (depth-limited).
func Scan(root *crdt.Object, maxDepth int) []Cont {
	var out []Cont
	var walk func(e crdt.Element, path []string, depth int)
	walk = func(e crdt.Element, path []string, depth int) {
		p := append([]string(nil), path...)
		switch v := e.(type) {
		case *crdt.Object:
			c := Cont{Path: p, Kind: "obj", KeyKinds: map[string]string{}, Depth: depth}
			m := v.Members()
			for k := range m {
				c.Keys = append(c.Keys, k)
			}
			sort.Strings(c.Keys)
			for _, k := range c.Keys {
				c.KeyKinds[k] = kindOf(m[k])
			}
			out = append(out, c)
			if depth < maxDepth {
				for _, k := range c.Keys {
					walk(m[k], append(p, k), depth+1)
				}
			}
		case *crdt.Array:
			c := Cont{Path: p, Kind: "arr", Depth: depth}
			els := v.Elements()
			c.Len = len(els)
			for _, el := range els {
				c.ElemKinds = append(c.ElemKinds, kindOf(el))
			}
			out = append(out, c)
			if depth < maxDepth {
				for i, el := range els {
					walk(el, append(p, fmt.Sprintf("#%d", i)), depth+1)
				}
			}
		case *crdt.Text:
			c := Cont{Path: p, Kind: "txt", Depth: depth}
			c.U16 = utf16.Encode([]rune(v.String()))
			out = append(out, c)
		case *crdt.Counter:
			c := Cont{Path: p, Kind: "cnt", Depth: depth}
			switch {
			case v.IsDedup():
				c.CntType = "dedup"
			case v.ValueType() == crdt.LongCnt:
				c.CntType = "long"
			default:
				c.CntType = "int"
			}
			out = append(out, c)
		case *crdt.Tree:
			c := Cont{Path: p, Kind: "tree", Depth: depth}
			r := v.Root()
			c.TreeLen = r.Index.Len()
			pos := 0
			for _, ch := range r.Index.Children() {
				b := Block{Start: pos, Size: ch.PaddedLength(), Type: ch.Type}
				if !ch.IsText() {
					b.OnlyTxt = true
					for _, g := range ch.Children() {
						if !g.IsText() {
							b.OnlyTxt = false
						}
					}
					b.TextLen = ch.Len()
					if ch.Value.Attrs != nil {
						for k := range ch.Value.Attrs.Elements() {
							b.Attrs = append(b.Attrs, k)
						}
						sort.Strings(b.Attrs)
					}
				}
				pos += b.Size
				c.Blocks = append(c.Blocks, b)
			}
			var parents func(n *crdt.TreeNode, start int)
			parents = func(n *crdt.TreeNode, start int) {
				// start: index just behind n's open tag
				tp := TParent{Bounds: []int{start}}
				at := start
				for _, ch := range n.Index.Children() {
					if ch.IsText() {
						for k := 0; k < ch.Len(); k++ {
							at++
							tp.Bounds = append(tp.Bounds, at)
						}
						continue
					}
					parents(ch.Value, at+1)
					at += ch.PaddedLength()
					tp.Bounds = append(tp.Bounds, at)
				}
				c.Parents = append(c.Parents, tp)
			}
			at := 0
			for _, ch := range r.Index.Children() {
				if !ch.IsText() {
					parents(ch.Value, at+1)
				}
				at += ch.PaddedLength()
			}
			out = append(out, c)
		}
	}
	walk(root, nil, 0)
	return out
}
