// Package gen holds the concrete, replayable description of document edits
// (Edit), their application through the public json proxies, the scan of a
// replica's visible state, and the seeded generators that pick valid edits.
package gen

import (
	"errors"
	"fmt"
	"strconv"
	"strings"
	gotime "time"
	"unicode/utf16"

	"github.com/yorkie-team/yorkie/pkg/document/crdt"
	"github.com/yorkie-team/yorkie/pkg/document/json"
	"github.com/yorkie-team/yorkie/pkg/document/presence"
)

// Val is a concrete value for set/add.
type Val struct {
	T string  `json:"t"` // null bool int long double str bytes date obj arr text cnti cntl dedup tree
	B bool    `json:"b,omitempty"`
	I int64   `json:"i,omitempty"`
	F float64 `json:"f,omitempty"`
	S string  `json:"s,omitempty"`
	Y []byte  `json:"y,omitempty"`
}

// TN is a tree node spec.
type TN struct {
	Type  string            `json:"type"`
	Text  string            `json:"text,omitempty"`
	Attrs map[string]string `json:"attrs,omitempty"`
	Kids  []TN              `json:"kids,omitempty"`
}

// Edit is one public-API call.
type Edit struct {
	Op   string            `json:"op"`
	Path []string          `json:"path,omitempty"`
	K    string            `json:"k,omitempty"`
	I    int               `json:"i"`
	J    int               `json:"j"`
	S    string            `json:"s,omitempty"`
	V    *Val              `json:"v,omitempty"`
	A    map[string]string `json:"a,omitempty"`
	Keys []string          `json:"keys,omitempty"`
	N    int64             `json:"n,omitempty"`
	T    []TN              `json:"t,omitempty"`
	L    int               `json:"l,omitempty"` // tree split level
	P    map[string]string `json:"p,omitempty"` // presence
}

func (e Edit) String() string {
	b := &strings.Builder{}
	fmt.Fprintf(b, "%s %s", e.Op, strings.Join(e.Path, "/"))
	if e.K != "" {
		fmt.Fprintf(b, " k=%s", e.K)
	}
	fmt.Fprintf(b, " i=%d j=%d", e.I, e.J)
	if e.S != "" {
		fmt.Fprintf(b, " s=%q", e.S)
	}
	if e.V != nil {
		fmt.Fprintf(b, " v=%s", e.V.T)
	}
	return b.String()
}

// ErrUnresolvable means the edit's container path does not exist (any more)
// on this replica.
var ErrUnresolvable = errors.New("edit path not resolvable")

// Resolve walks path from root through the json proxies.
func Resolve(root *json.Object, path []string) (any, error) {
	var cur any = root
	for _, seg := range path {
		switch c := cur.(type) {
		case *json.Object:
			el := c.Get(seg)
			if el == nil {
				return nil, ErrUnresolvable
			}
			switch el.(type) {
			case *crdt.Object:
				cur = c.GetObject(seg)
			case *crdt.Array:
				cur = c.GetArray(seg)
			case *crdt.Text:
				cur = c.GetText(seg)
			case *crdt.Counter:
				cur = c.GetCounter(seg)
			case *crdt.Tree:
				cur = c.GetTree(seg)
			default:
				return nil, ErrUnresolvable
			}
		case *json.Array:
			if !strings.HasPrefix(seg, "#") {
				return nil, ErrUnresolvable
			}
			idx, err := strconv.Atoi(seg[1:])
			if err != nil || idx < 0 || idx >= c.Len() {
				return nil, ErrUnresolvable
			}
			el := c.Get(idx)
			switch el.(type) {
			case *crdt.Object:
				cur = c.GetObject(idx)
			case *crdt.Array:
				cur = c.GetArray(idx)
			case *crdt.Text:
				cur = c.GetText(idx)
			case *crdt.Counter:
				cur = c.GetCounter(idx)
			case *crdt.Tree:
				cur = c.GetTree(idx)
			default:
				return nil, ErrUnresolvable
			}
		default:
			return nil, ErrUnresolvable
		}
	}
	return cur, nil
}

func toTreeNode(t TN) json.TreeNode {
	n := json.TreeNode{Type: t.Type, Value: t.Text, Attributes: t.Attrs}
	for _, k := range t.Kids {
		n.Children = append(n.Children, toTreeNode(k))
	}
	return n
}

func setVal(o *json.Object, k string, v *Val) {
	switch v.T {
	case "null":
		o.SetNull(k)
	case "bool":
		o.SetBool(k, v.B)
	case "int":
		o.SetInteger(k, int(int32(v.I)))
	case "long":
		o.SetLong(k, v.I)
	case "double":
		o.SetDouble(k, v.F)
	case "str":
		o.SetString(k, v.S)
	case "bytes":
		o.SetBytes(k, v.Y)
	case "date":
		o.SetDate(k, gotime.UnixMilli(v.I).UTC())
	case "obj":
		o.SetNewObject(k)
	case "arr":
		o.SetNewArray(k)
	case "text":
		o.SetNewText(k)
	case "cnti":
		o.SetNewCounter(k, int32(v.I))
	case "cntl":
		o.SetNewCounter(k, v.I)
	case "dedup":
		o.SetNewDedupCounter(k)
	case "tree":
		n := toTreeNode(TN{Type: "doc", Kids: []TN{{Type: "p", Kids: []TN{{Type: "text", Text: v.S}}}}})
		if v.S == "" {
			n = toTreeNode(TN{Type: "doc", Kids: []TN{{Type: "p"}}})
		}
		o.SetNewTree(k, n)
	default:
		panic("gen: unknown val type " + v.T)
	}
}

func addVal(a *json.Array, v *Val) {
	switch v.T {
	case "null":
		a.AddNull()
	case "bool":
		a.AddBool(v.B)
	case "int":
		a.AddInteger(int(int32(v.I)))
	case "long":
		a.AddLong(v.I)
	case "double":
		a.AddDouble(v.F)
	case "str":
		a.AddString(v.S)
	case "bytes":
		a.AddBytes(v.Y)
	case "date":
		a.AddDate(gotime.UnixMilli(v.I).UTC())
	case "obj":
		a.AddNewObject()
	case "arr":
		a.AddNewArray()
	case "text":
		a.AddNewText()
	case "cnti":
		a.AddNewCounter(crdt.IntegerCnt, int32(v.I))
	case "cntl":
		a.AddNewCounter(crdt.LongCnt, v.I)
	default:
		panic("gen: unknown array val type " + v.T)
	}
}

// Apply performs the edit through the public proxies. Proxies panic on misuse;
// the caller recovers.
func Apply(root *json.Object, p *presence.Presence, e *Edit) error {
	switch e.Op {
	case "pres.set":
		for k, v := range e.P {
			p.Set(k, v)
		}
		return nil
	case "pres.replace":
		p.Initialize(e.P)
		return nil
	case "pres.clear":
		p.Clear()
		return nil
	case "noop":
		return nil
	}
	c, err := Resolve(root, e.Path)
	if err != nil {
		return err
	}
	switch e.Op {
	case "obj.set":
		o, ok := c.(*json.Object)
		if !ok {
			return ErrUnresolvable
		}
		setVal(o, e.K, e.V)
	case "obj.del":
		o, ok := c.(*json.Object)
		if !ok {
			return ErrUnresolvable
		}
		o.Delete(e.K)
	case "arr.add":
		a, ok := c.(*json.Array)
		if !ok {
			return ErrUnresolvable
		}
		addVal(a, e.V)
	case "arr.ins":
		a, ok := c.(*json.Array)
		if !ok || e.I >= a.Len() {
			return ErrUnresolvable
		}
		if e.V.T == "str" {
			a.InsertStringAfter(e.I, e.V.S)
		} else {
			a.InsertIntegerAfter(e.I, int(int32(e.V.I)))
		}
	case "arr.del":
		a, ok := c.(*json.Array)
		if !ok || e.I >= a.Len() {
			return ErrUnresolvable
		}
		a.Delete(e.I)
	case "arr.move": // move element J after element I
		a, ok := c.(*json.Array)
		if !ok || e.I >= a.Len() || e.J >= a.Len() {
			return ErrUnresolvable
		}
		a.MoveAfterByIndex(e.I, e.J)
	case "arr.before": // move element J right before element I
		a, ok := c.(*json.Array)
		if !ok || e.I >= a.Len() || e.J >= a.Len() || e.I == e.J {
			return ErrUnresolvable
		}
		a.MoveBefore(a.Get(e.I).CreatedAt(), a.Get(e.J).CreatedAt())
	case "arr.front":
		a, ok := c.(*json.Array)
		if !ok || e.I >= a.Len() {
			return ErrUnresolvable
		}
		a.MoveFront(a.Get(e.I).CreatedAt())
	case "arr.last":
		a, ok := c.(*json.Array)
		if !ok || e.I >= a.Len() {
			return ErrUnresolvable
		}
		a.MoveLast(a.Get(e.I).CreatedAt())
	case "arr.set":
		a, ok := c.(*json.Array)
		if !ok || e.I >= a.Len() {
			return ErrUnresolvable
		}
		if e.V.T == "str" {
			a.SetString(e.I, e.V.S)
		} else {
			a.SetInteger(e.I, int(int32(e.V.I)))
		}
	case "txt.edit":
		t, ok := c.(*json.Text)
		if !ok || e.I > e.J || e.J > len(utf16.Encode([]rune(t.String()))) {
			return ErrUnresolvable
		}
		if e.A != nil {
			t.Edit(e.I, e.J, e.S, e.A)
		} else {
			t.Edit(e.I, e.J, e.S)
		}
	case "txt.style":
		t, ok := c.(*json.Text)
		if !ok || e.I >= e.J || e.J > len(utf16.Encode([]rune(t.String()))) {
			return ErrUnresolvable
		}
		t.Style(e.I, e.J, e.A)
	case "cnt.inc":
		cn, ok := c.(*json.Counter)
		if !ok {
			return ErrUnresolvable
		}
		if cn.IsDedup() {
			cn.Add(e.S)
		} else if cn.ValueType() == crdt.LongCnt {
			cn.Increase(e.N)
		} else {
			cn.Increase(int(int32(e.N)))
		}
	case "tree.edit":
		t, ok := c.(*json.Tree)
		if !ok || e.I > e.J || e.J > t.Len() {
			return ErrUnresolvable
		}
		if len(e.T) == 0 {
			t.Edit(e.I, e.J, nil, e.L)
		} else if len(e.T) == 1 {
			n := toTreeNode(e.T[0])
			t.Edit(e.I, e.J, &n, e.L)
		} else {
			var ns []*json.TreeNode
			for i := range e.T {
				n := toTreeNode(e.T[i])
				ns = append(ns, &n)
			}
			t.EditBulk(e.I, e.J, ns, e.L)
		}
	case "tree.style":
		t, ok := c.(*json.Tree)
		if !ok || e.I >= e.J || e.J > t.Len() {
			return ErrUnresolvable
		}
		t.Style(e.I, e.J, e.A)
	case "tree.rmstyle":
		t, ok := c.(*json.Tree)
		if !ok || e.I >= e.J || e.J > t.Len() {
			return ErrUnresolvable
		}
		t.RemoveStyle(e.I, e.J, e.Keys)
	default:
		return fmt.Errorf("gen: unknown op %q", e.Op)
	}
	return nil
}
