package runner

import "syscall"

var sigQuit = syscall.SIGQUIT
