// Package runner is the parent/worker process model shared by all checks:
// the parent forks worker processes (one in-process yorkie server each),
// shards a fixed, seed-determined case list over them, aggregates results,
// writes the evidence file and prints VIOLATION / KNOWN-FINDING lines.
package runner

import (
	"bufio"
	"crypto/sha256"
	"encoding/hex"
	"encoding/json"
	"fmt"
	"os"
	"os/exec"
	"path/filepath"
	"runtime"
	"sort"
	"strconv"
	"strings"
	"sync"
	"time"
)

// Violation is one refuting observation.
type Violation struct {
	Kind   string          `json:"kind"`
	Detail string          `json:"detail"`
	Ident  string          `json:"ident,omitempty"` // stable identity for known-findings matching
	Replay json.RawMessage `json:"replay,omitempty"`
}

// CaseResult is what a worker reports per case.
type CaseResult struct {
	Case         string              `json:"case"`
	Idx          int                 `json:"idx"`
	Hash         string              `json:"hash"`
	Nontrivial   bool                `json:"nontrivial"`
	Viol         []Violation         `json:"viol,omitempty"`
	Stats        map[string]int64    `json:"stats,omitempty"`
	Sets         map[string][]string `json:"sets,omitempty"` // distinct-value sets, unioned by the parent
	Sample       json.RawMessage     `json:"sample,omitempty"`
	Inconclusive string              `json:"inconclusive,omitempty"`
	Notes        []string            `json:"notes,omitempty"`
}

// AddStat increments a counter.
func (c *CaseResult) AddStat(k string, n int64) {
	if c.Stats == nil {
		c.Stats = map[string]int64{}
	}
	c.Stats[k] += n
}

// AddSet records a distinct value under key k.
func (c *CaseResult) AddSet(k, v string) {
	if c.Sets == nil {
		c.Sets = map[string][]string{}
	}
	for _, x := range c.Sets[k] {
		if x == v {
			return
		}
	}
	c.Sets[k] = append(c.Sets[k], v)
}

// Violate appends a violation.
func (c *CaseResult) Violate(kind, detail, ident string, replay any) {
	var raw json.RawMessage
	if replay != nil {
		raw, _ = json.Marshal(replay)
	}
	c.Viol = append(c.Viol, Violation{Kind: kind, Detail: detail, Ident: ident, Replay: raw})
}

// HashOf is a helper for canonical case hashes.
func HashOf(v any) string {
	b, _ := json.Marshal(v)
	s := sha256.Sum256(b)
	return hex.EncodeToString(s[:8])
}

// Worker runs cases inside one process.
type Worker interface {
	Run(idx int) CaseResult
	Replay(data json.RawMessage) CaseResult
	Close()
}

// Floor is a minimum on an aggregated stat below which the run is inconclusive.
type Floor struct {
	Stat string
	Min  int64
}

// Prop describes one property's check.
type Prop interface {
	ID() string
	Level() string // exploration | fault_enumeration
	Rule() string
	Assumptions() []string
	NumCases(tier string, seed int64) int
	Exhaustive(tier string) bool
	Floors(tier string) []Floor
	NewWorker(tier string, seed int64) (Worker, error)
}

// Finding is one entry of known_findings.json.
type Finding struct {
	Kind     string   `json:"kind"` // finding | fixed
	Property string   `json:"property"`
	ID       string   `json:"id"`
	Ident    string   `json:"ident,omitempty"` // exact Violation.Ident, or prefix when ending in *
	Idents   []string `json:"idents,omitempty"`
	What     string   `json:"what"`
	Commit   string   `json:"commit,omitempty"`
	Witness  string   `json:"witness,omitempty"`
}

// LoadFindings reads /verif/known_findings.json.
func LoadFindings(root string) []Finding {
	b, err := os.ReadFile(filepath.Join(root, "known_findings.json"))
	if err != nil {
		return nil
	}
	var f struct {
		Findings []Finding `json:"findings"`
	}
	if err := json.Unmarshal(b, &f); err != nil {
		fmt.Fprintf(os.Stderr, "known_findings.json: %v\n", err)
		os.Exit(2)
	}
	return f.Findings
}

func matchFinding(fs []Finding, prop, ident string) *Finding {
	if ident == "" {
		return nil
	}
	for i := range fs {
		f := &fs[i]
		if f.Kind != "finding" || f.Property != prop {
			continue
		}
		ids := f.Idents
		if f.Ident != "" {
			ids = append([]string{f.Ident}, ids...)
		}
		for _, id := range ids {
			if strings.HasSuffix(id, "*") {
				if strings.HasPrefix(ident, strings.TrimSuffix(id, "*")) {
					return f
				}
			} else if id == ident {
				return f
			}
		}
	}
	return nil
}

// Root returns the /verif directory (VERIF_ROOT or cwd).
func Root() string {
	if r := os.Getenv("VERIF_ROOT"); r != "" {
		return r
	}
	wd, _ := os.Getwd()
	return wd
}

// Seed returns VERIF_SEED or 1.
func Seed() int64 {
	if s := os.Getenv("VERIF_SEED"); s != "" {
		if n, err := strconv.ParseInt(s, 10, 64); err == nil {
			return n
		}
	}
	return 1
}

// NumWorkers returns the worker count.
func NumWorkers() int {
	if s := os.Getenv("VERIF_WORKERS"); s != "" {
		if n, err := strconv.Atoi(s); err == nil && n > 0 {
			return n
		}
	}
	n := runtime.NumCPU() - 4
	if n < 2 {
		n = 2
	}
	if n > 12 {
		n = 12
	}
	return n
}

// WorkerMain is the entry of a worker process.
func WorkerMain(p Prop, tier string, seed int64, shard, nshards int, outPath string, only []int) int {
	f, err := os.Create(outPath)
	if err != nil {
		fmt.Fprintln(os.Stderr, err)
		return 2
	}
	defer f.Close()
	w := bufio.NewWriter(f)
	emit := func(v any) {
		b, _ := json.Marshal(v)
		w.Write(b)
		w.WriteByte('\n')
		w.Flush()
	}
	wk, err := p.NewWorker(tier, seed)
	if err != nil {
		emit(map[string]any{"fatal": err.Error()})
		fmt.Fprintln(os.Stderr, "worker setup:", err)
		return 2
	}
	defer wk.Close()
	run := func(i int) {
		emit(map[string]any{"start": i})
		res := wk.Run(i)
		res.Idx = i
		emit(map[string]any{"result": res})
	}
	if only != nil {
		for _, i := range only {
			run(i)
		}
	} else {
		n := p.NumCases(tier, seed)
		for i := shard; i < n; i += nshards {
			run(i)
		}
	}
	emit(map[string]any{"done": true})
	return 0
}

// WitnessMain replays a pinned known-finding witness in a worker process.
func WitnessMain(p Prop, tier string, seed int64, file, outPath string) int {
	f, err := os.Create(outPath)
	if err != nil {
		return 2
	}
	defer f.Close()
	emit := func(v any) {
		b, _ := json.Marshal(v)
		f.Write(b)
		f.Write([]byte("\n"))
	}
	b, err := os.ReadFile(file)
	if err != nil {
		emit(map[string]any{"fatal": err.Error()})
		return 2
	}
	var doc struct {
		Replay json.RawMessage `json:"replay"`
	}
	if err := json.Unmarshal(b, &doc); err != nil {
		emit(map[string]any{"fatal": err.Error()})
		return 2
	}
	wk, err := p.NewWorker(tier, seed)
	if err != nil {
		emit(map[string]any{"fatal": err.Error()})
		return 2
	}
	defer wk.Close()
	var res CaseResult
	for try := 0; try < 5; try++ {
		res = wk.Replay(doc.Replay)
		if len(res.Viol) > 0 {
			break
		}
	}
	res.Case = "witness:" + filepath.Base(file)
	emit(map[string]any{"result": res})
	emit(map[string]any{"done": true})
	return 0
}

type workerOut struct {
	results  []CaseResult
	inflight int
	done     bool
	fatal    string
	races    int
	sdkRaces int
	raceLog  string
}

func readWorkerOut(path string) workerOut {
	out := workerOut{inflight: -1}
	f, err := os.Open(path)
	if err != nil {
		return out
	}
	defer f.Close()
	sc := bufio.NewScanner(f)
	sc.Buffer(make([]byte, 1<<20), 1<<28)
	for sc.Scan() {
		var m struct {
			Start  *int        `json:"start"`
			Result *CaseResult `json:"result"`
			Done   bool        `json:"done"`
			Fatal  string      `json:"fatal"`
		}
		if err := json.Unmarshal(sc.Bytes(), &m); err != nil {
			continue
		}
		switch {
		case m.Start != nil:
			out.inflight = *m.Start
		case m.Result != nil:
			out.results = append(out.results, *m.Result)
			out.inflight = -1
		case m.Done:
			out.done = true
		case m.Fatal != "":
			out.fatal = m.Fatal
		}
	}
	return out
}

// ParentMain runs the whole check and returns the exit code.
func ParentMain(p Prop, tier string, extraArgs []string) int {
	start := time.Now()
	root := Root()
	seed := Seed()
	n := p.NumCases(tier, seed)
	nw := NumWorkers()
	if nw > n {
		nw = n
	}
	if nw < 1 {
		nw = 1
	}
	work := filepath.Join(root, ".work", fmt.Sprintf("%s-%s-%d", p.ID(), tier, os.Getpid()))
	_ = os.MkdirAll(work, 0o755)
	defer os.RemoveAll(work)
	exe, _ := os.Executable()

	watchdog := 40 * time.Minute
	if tier == "thorough" {
		watchdog = 6 * time.Hour
	}
	if s := os.Getenv("VERIF_WATCHDOG"); s != "" {
		if d, err := time.ParseDuration(s); err == nil {
			watchdog = d
		}
	}

	spawn := func(shard, nshards int, only []int, tag string) workerOut {
		out := filepath.Join(work, fmt.Sprintf("w%s.jsonl", tag))
		logp := filepath.Join(work, fmt.Sprintf("w%s.log", tag))
		args := []string{"--worker", p.ID(), tier, strconv.FormatInt(seed, 10), strconv.Itoa(shard), strconv.Itoa(nshards), out}
		if only != nil {
			var ss []string
			for _, i := range only {
				ss = append(ss, strconv.Itoa(i))
			}
			args = append(args, strings.Join(ss, ","))
		}
		cmd := exec.Command(exe, args...)
		lf, _ := os.Create(logp)
		cmd.Stdout = lf
		cmd.Stderr = lf
		cmd.Env = append(os.Environ(), "VERIF_ROOT="+root, "GOTRACEBACK=all")
		if err := cmd.Start(); err != nil {
			return workerOut{fatal: err.Error(), inflight: -1}
		}
		donec := make(chan error, 1)
		go func() { donec <- cmd.Wait() }()
		timedOut := false
		select {
		case <-donec:
		case <-time.After(watchdog):
			timedOut = true
			_ = cmd.Process.Signal(sigQuit)
			select {
			case <-donec:
			case <-time.After(10 * time.Second):
				_ = cmd.Process.Kill()
				<-donec
			}
		}
		lf.Close()
		wo := readWorkerOut(out)
		if lb, err := os.ReadFile(logp); err == nil {
			if n, sdk := countRaces(string(lb)); n+sdk > 0 {
				wo.races = n
				wo.sdkRaces = sdk
				keep := filepath.Join(root, "replays", fmt.Sprintf("%s-%s-seed%d-worker%s-race.log", p.ID(), tier, seed, tag))
				_ = os.MkdirAll(filepath.Dir(keep), 0o755)
				if len(lb) > 400000 {
					lb = lb[:400000]
				}
				_ = os.WriteFile(keep, lb, 0o644)
				wo.raceLog = keep
			}
		}
		if !wo.done && wo.fatal == "" {
			tail := tailFile(logp, 6000)
			keep := filepath.Join(root, "replays", fmt.Sprintf("%s-worker%s-crash.log", p.ID(), tag))
			_ = os.MkdirAll(filepath.Dir(keep), 0o755)
			_ = os.WriteFile(keep, []byte(tail), 0o644)
			if timedOut {
				wo.fatal = "watchdog"
			}
		}
		return wo
	}

	var mu sync.Mutex
	var all []CaseResult
	var crashed []int
	var fatals []string
	var wg sync.WaitGroup
	for s := 0; s < nw; s++ {
		wg.Add(1)
		go func(s int) {
			defer wg.Done()
			wo := spawn(s, nw, nil, strconv.Itoa(s))
			mu.Lock()
			defer mu.Unlock()
			all = append(all, wo.results...)
			if wo.races > 0 {
				r := CaseResult{Case: fmt.Sprintf("worker-%d", s), Idx: 1<<30 + s, Hash: fmt.Sprintf("race-%d", s)}
				r.Violate("data-race", fmt.Sprintf("the Go race detector printed %d report(s) in worker %d; full log: %s\n%s", wo.races, s, wo.raceLog, firstRace(wo.raceLog)), "", map[string]any{"race_log": wo.raceLog})
				all = append(all, r)
				planned1 := 1
				_ = planned1
			}
			if wo.sdkRaces > 0 {
				// SDK-only reports: noted in the evidence, not a verdict on this property
				r := CaseResult{Case: fmt.Sprintf("worker-%d-sdk-races", s), Idx: 1<<30 + 64 + s, Hash: fmt.Sprintf("sdk-race-%d", s)}
				r.AddStat("race_reports_inside_the_go_sdk_only_not_judged", int64(wo.sdkRaces))
				r.Notes = append(r.Notes, fmt.Sprintf("%d race report(s) between goroutines of client.Client and the application goroutine (no server frame): outside the property; log %s", wo.sdkRaces, wo.raceLog))
				all = append(all, r)
			}
			if wo.fatal != "" && wo.fatal != "watchdog" {
				fatals = append(fatals, wo.fatal)
			}
			if !wo.done {
				if wo.inflight >= 0 {
					crashed = append(crashed, wo.inflight)
				}
				// the remaining cases of this shard were not run: rerun them in a fresh worker
				doneSet := map[int]bool{}
				for _, r := range wo.results {
					doneSet[r.Idx] = true
				}
				var rest []int
				for i := s; i < n; i += nw {
					if !doneSet[i] && i != wo.inflight {
						rest = append(rest, i)
					}
				}
				if len(rest) > 0 && wo.fatal == "" {
					mu.Unlock()
					wo2 := spawn(s, nw, rest, strconv.Itoa(s)+"r")
					mu.Lock()
					all = append(all, wo2.results...)
					if !wo2.done && wo2.inflight >= 0 {
						crashed = append(crashed, wo2.inflight)
					}
				}
			}
		}(s)
	}
	wg.Wait()

	if len(fatals) > 0 {
		fmt.Printf("HARNESS-ERROR: %s\n", strings.Join(fatals, "; "))
		return 2
	}

	// classify crashed cases by one isolated re-run each
	var inconclusive []string
	for _, ci := range crashed {
		wo := spawn(0, 1, []int{ci}, fmt.Sprintf("c%d", ci))
		if wo.done && len(wo.results) == 1 {
			r := wo.results[0]
			r.Notes = append(r.Notes, "worker died or hung while running this case in a batch; isolated re-run completed")
			inconclusive = append(inconclusive, fmt.Sprintf("case %d: worker died in batch, isolated re-run completed", ci))
			all = append(all, r)
		} else {
			logp := filepath.Join(root, "replays", fmt.Sprintf("%s-workerc%d-crash.log", p.ID(), ci))
			r := CaseResult{Case: fmt.Sprintf("case-%d", ci), Idx: ci, Hash: fmt.Sprintf("crash-%d", ci)}
			r.Violate("crash-or-hang", "worker process died or exceeded the watchdog twice on this case; log: "+logp, "", map[string]any{"case": ci, "idx": ci, "seed": seed, "tier": tier})
			all = append(all, r)
		}
	}

	sort.Slice(all, func(i, j int) bool { return all[i].Idx < all[j].Idx })

	// pinned witnesses of recorded findings: replayed on every run; each prints
	// its KNOWN-FINDING line only while it still fails.
	witnessed := map[string]string{}
	for _, f := range LoadFindings(root) {
		if f.Kind != "finding" || f.Property != p.ID() || f.Witness == "" {
			continue
		}
		out := filepath.Join(work, "witness-"+f.ID+".jsonl")
		cmd := exec.Command(exe, "--witness", p.ID(), tier, strconv.FormatInt(seed, 10), filepath.Join(root, f.Witness), out)
		cmd.Env = append(os.Environ(), "VERIF_ROOT="+root)
		lf, _ := os.Create(filepath.Join(work, "witness-"+f.ID+".log"))
		cmd.Stdout, cmd.Stderr = lf, lf
		_ = cmd.Run()
		lf.Close()
		wo := readWorkerOut(out)
		if len(wo.results) == 1 && len(wo.results[0].Viol) > 0 {
			witnessed[f.ID] = wo.results[0].Viol[0].Kind + ": " + trunc(wo.results[0].Viol[0].Detail, 300)
		} else if !wo.done {
			witnessed[f.ID] = "witness replay crashed the worker"
		}
	}
	return report(p, tier, seed, all, inconclusive, start, n, witnessed)
}

// countRaces counts the race detector's reports in a worker log. A report whose stacks run
// through the Go SDK (/repo/client/) and through no server code at all is a race between
// the SDK's own goroutines (its sync / watch loops) and the application goroutine: real,
// but on the client side, which none of the properties checked here speaks about (they
// concern the server's pipeline and pub/sub). Such reports are counted apart and noted, not
// raised as a violation of the property under check.
func repoRoot() string {
	if r := os.Getenv("VERIF_REPO"); r != "" {
		return strings.TrimRight(r, "/")
	}
	return "/repo"
}

func sdkOnlyRace(blk string) bool {
	return strings.Contains(blk, repoRoot()+"/client/") && !strings.Contains(blk, repoRoot()+"/server/")
}

func countRaces(log string) (server, sdkOnly int) {
	for _, blk := range strings.Split(log, "==================") {
		if !strings.Contains(blk, "WARNING: DATA RACE") {
			continue
		}
		if sdkOnlyRace(blk) {
			sdkOnly++
		} else {
			server++
		}
	}
	return server, sdkOnly
}

func firstRace(path string) string {
	b, err := os.ReadFile(path)
	if err != nil {
		return ""
	}
	s := ""
	for _, blk := range strings.Split(string(b), "==================") {
		if strings.Contains(blk, "WARNING: DATA RACE") && !sdkOnlyRace(blk) {
			s = blk[strings.Index(blk, "WARNING: DATA RACE"):]
			break
		}
	}
	if s == "" {
		return ""
	}
	if len(s) > 3000 {
		s = s[:3000]
	}
	return s
}

func tailFile(path string, n int) string {
	b, err := os.ReadFile(path)
	if err != nil {
		return ""
	}
	if len(b) > n {
		// keep the head (panic message) and the tail
		return string(b[:n/2]) + "\n...\n" + string(b[len(b)-n/2:])
	}
	return string(b)
}

func report(p Prop, tier string, seed int64, all []CaseResult, inconclusive []string, start time.Time, planned int, witnessed map[string]string) int {
	root := Root()
	findings := LoadFindings(root)
	stats := map[string]int64{}
	sets := map[string]map[string]bool{}
	distinct := map[string]bool{}
	var samples []json.RawMessage
	violations := 0
	known := map[string]int{}
	var lines []string
	for _, r := range all {
		for k, v := range r.Stats {
			stats[k] += v
		}
		for k, vs := range r.Sets {
			if sets[k] == nil {
				sets[k] = map[string]bool{}
			}
			for _, v := range vs {
				sets[k][v] = true
			}
		}
		if r.Nontrivial {
			distinct[r.Hash] = true
		}
		if r.Sample != nil && len(samples) < 4 {
			samples = append(samples, r.Sample)
		}
		if r.Inconclusive != "" {
			inconclusive = append(inconclusive, r.Case+": "+r.Inconclusive)
		}
		for vi, v := range r.Viol {
			if f := matchFinding(findings, p.ID(), v.Ident); f != nil {
				known[f.ID]++
				continue
			}
			violations++
			if violations > maxReplays() {
				continue
			}
			name := fmt.Sprintf("%s-%s-seed%d-case%d-%d.json", p.ID(), tier, seed, r.Idx, vi)
			path := filepath.Join(root, "replays", name)
			_ = os.MkdirAll(filepath.Dir(path), 0o755)
			doc := map[string]any{"property": p.ID(), "case": r.Case, "idx": r.Idx, "seed": seed, "tier": tier,
				"kind": v.Kind, "detail": v.Detail, "ident": v.Ident, "replay": v.Replay}
			b, _ := json.MarshalIndent(doc, "", " ")
			_ = os.WriteFile(path, b, 0o644)
			lines = append(lines, fmt.Sprintf("VIOLATION property=%s replay=%s", p.ID(), path))
			fmt.Printf("  [%s] %s: %s\n", r.Case, v.Kind, trunc(v.Detail, 600))
		}
	}
	for _, f := range findings {
		if f.Kind != "finding" || f.Property != p.ID() {
			continue
		}
		if w, ok := witnessed[f.ID]; ok {
			known[f.ID]++
			fmt.Printf("KNOWN-FINDING: property=%s %s (%s; pinned witness %s still fails: %s)\n", p.ID(), f.What, f.ID, f.Witness, strings.ReplaceAll(w, "\n", " / "))
		} else if known[f.ID] > 0 {
			fmt.Printf("KNOWN-FINDING: property=%s %s (%s; seen %d times this run)\n", p.ID(), f.What, f.ID, known[f.ID])
		} else if f.Witness != "" && witnessed != nil {
			// never silently: a witness that stopped failing means the finding (and its fence) needs review
			inconclusive = append(inconclusive, fmt.Sprintf("pinned witness %s of recorded finding %s did not reproduce in this run; its fence is still active", f.Witness, f.ID))
		}
	}
	for _, l := range lines {
		fmt.Println(l)
	}
	for _, s := range inconclusive {
		fmt.Printf("INCONCLUSIVE: %s\n", s)
	}
	// floors
	floorMiss := []string{}
	for _, fl := range p.Floors(tier) {
		got := stats[fl.Stat]
		if m, ok := sets[fl.Stat]; ok {
			got = int64(len(m))
		}
		if got < fl.Min {
			floorMiss = append(floorMiss, fmt.Sprintf("%s=%d < %d", fl.Stat, got, fl.Min))
		}
	}
	cov := map[string]any{
		"evaluations":         len(all),
		"planned":             planned,
		"distinct_nontrivial": len(distinct),
		"rule":                p.Rule(),
		"samples":             samples,
		"exhaustive":          p.Exhaustive(tier) && len(all) == planned,
		"observed":            stats,
		"inconclusive":        inconclusive,
		"known_findings_seen": known,
	}
	for k, m := range sets {
		cov["distinct_"+k] = len(m)
		if len(m) <= 120 {
			var vs []string
			for v := range m {
				vs = append(vs, v)
			}
			sort.Strings(vs)
			cov["values_"+k] = vs
		}
	}
	if len(samples) == 0 {
		cov["samples"] = []any{"(no sample recorded)"}
	}
	ev := map[string]any{
		"property_id": p.ID(),
		"tier":        tier,
		"seed":        seed,
		"level":       p.Level(),
		"coverage":    cov,
		"assumptions": p.Assumptions(),
		"wall_s":      time.Since(start).Seconds(),
		"violations":  violations,
	}
	b, _ := json.MarshalIndent(ev, "", " ")
	evDir := filepath.Join(root, "evidence")
	if d := os.Getenv("VERIF_EVIDENCE_DIR"); d != "" {
		// runs against a seeded scratch tree (tools/run_seed_wt.sh) keep their evidence apart
		evDir = d
	}
	_ = os.MkdirAll(evDir, 0o755)
	_ = os.WriteFile(filepath.Join(evDir, p.ID()+".json"), b, 0o644)

	keys := make([]string, 0, len(stats))
	for k := range stats {
		keys = append(keys, k)
	}
	sort.Strings(keys)
	var sb strings.Builder
	for _, k := range keys {
		fmt.Fprintf(&sb, " %s=%d", k, stats[k])
	}
	fmt.Printf("%s %s seed=%d: cases=%d/%d distinct_nontrivial=%d violations=%d wall=%.1fs observed:%s\n",
		p.ID(), tier, seed, len(all), planned, len(distinct), violations, time.Since(start).Seconds(), sb.String())
	if violations > 0 {
		return 1
	}
	completed := 0
	for _, r := range all {
		if r.Idx < 1<<30 {
			completed++
		}
	}
	if completed < planned {
		fmt.Printf("INCONCLUSIVE: only %d of %d planned cases completed\n", completed, planned)
		return 2
	}
	if len(floorMiss) > 0 {
		fmt.Printf("INCONCLUSIVE: observation floor missed: %s\n", strings.Join(floorMiss, ", "))
		return 2
	}
	return 0
}

func trunc(s string, n int) string {
	if len(s) > n {
		return s[:n] + "…"
	}
	return s
}

// ReplayMain re-runs a replay file in-process.
func ReplayMain(p Prop, path string) int {
	b, err := os.ReadFile(path)
	if err != nil {
		fmt.Fprintln(os.Stderr, err)
		return 2
	}
	var doc struct {
		Seed   int64           `json:"seed"`
		Tier   string          `json:"tier"`
		Replay json.RawMessage `json:"replay"`
	}
	if err := json.Unmarshal(b, &doc); err != nil {
		fmt.Fprintln(os.Stderr, err)
		return 2
	}
	if doc.Tier == "" {
		doc.Tier = "quick"
	}
	wk, err := p.NewWorker(doc.Tier, doc.Seed)
	if err != nil {
		fmt.Fprintln(os.Stderr, err)
		return 2
	}
	defer wk.Close()
	times := 5
	if s := os.Getenv("VERIF_REPLAY_TIMES"); s != "" {
		times, _ = strconv.Atoi(s)
	}
	repro := 0
	findings := LoadFindings(Root())
	unknown := 0
	for i := 0; i < times; i++ {
		res := wk.Replay(doc.Replay)
		if len(res.Viol) > 0 {
			repro++
			for _, v := range res.Viol {
				f := matchFinding(findings, p.ID(), v.Ident)
				if f == nil {
					unknown++
				}
				if repro == 1 {
					tag := ""
					if f != nil {
						tag = " [recorded finding " + f.ID + ", ident " + v.Ident + "]"
					}
					fmt.Printf("  %s%s: %s\n", v.Kind, tag, trunc(v.Detail, 2000))
				}
			}
		}
	}
	fmt.Printf("replay %s: reproduced %d/%d\n", path, repro, times)
	if repro > 0 && unknown == 0 {
		fmt.Printf("KNOWN-FINDING: property=%s every failure of this replay is identified as a recorded finding\n", p.ID())
		return 0
	}
	if repro > 0 {
		fmt.Printf("VIOLATION property=%s replay=%s\n", p.ID(), path)
		return 1
	}
	return 0
}

// maxReplays caps the replay files written per run (VERIF_MAX_REPLAYS raises it for triage).
func maxReplays() int {
	if v, err := strconv.Atoi(os.Getenv("VERIF_MAX_REPLAYS")); err == nil && v > 0 {
		return v
	}
	return 25
}
