// Package model holds plain reference models of the yorkie data types
// (Go slices / maps / a small DOM) used as oracles by C07, C08 and C14.
package model

import (
	"fmt"
	"sort"
	"strconv"
	"strings"
	"unicode/utf16"

	"verif/internal/gen"
)

// Node is a model value.
type Node struct {
	Kind  string // obj arr txt cnt tree prim
	Obj   map[string]*Node
	Arr   []*Node
	Moved bool // array element that was moved before (fence of F-ARRSET-MOVED)
	Prim  string
	Units []uint16
	Attrs []map[string]string // per unit
	Long  bool
	Dedup bool
	Cnt   int64
	Seen  map[string]bool
	Tree  *TNode
}

// TItem is one item of an element's content: a character or a child element.
type TItem struct {
	Ch uint16
	El *TNode
}

// TNode is a model tree element.
type TNode struct {
	Type  string
	Attrs map[string]string
	Items []TItem
}

// PrimMarshal renders a primitive the way the document does; supplied by the
// caller (computed with an independent one-element document).
var PrimMarshal func(v *gen.Val) string

func newVal(v *gen.Val) *Node {
	switch v.T {
	case "obj":
		return &Node{Kind: "obj", Obj: map[string]*Node{}}
	case "arr":
		return &Node{Kind: "arr"}
	case "text":
		return &Node{Kind: "txt"}
	case "cnti":
		return &Node{Kind: "cnt", Cnt: int64(int32(v.I))}
	case "cntl":
		return &Node{Kind: "cnt", Long: true, Cnt: v.I}
	case "dedup":
		return &Node{Kind: "cnt", Dedup: true, Seen: map[string]bool{}}
	case "tree":
		p := &TNode{Type: "p"}
		for _, u := range utf16.Encode([]rune(v.S)) {
			p.Items = append(p.Items, TItem{Ch: u})
		}
		return &Node{Kind: "tree", Tree: &TNode{Type: "doc", Items: []TItem{{El: p}}}}
	default:
		return &Node{Kind: "prim", Prim: PrimMarshal(v)}
	}
}

// NewRoot returns an empty root object.
func NewRoot() *Node { return &Node{Kind: "obj", Obj: map[string]*Node{}} }

// ErrPath means the path does not resolve in the model.
var ErrPath = fmt.Errorf("model: path not resolvable")

func (n *Node) resolve(path []string) (*Node, error) {
	cur := n
	for _, seg := range path {
		switch cur.Kind {
		case "obj":
			c, ok := cur.Obj[seg]
			if !ok {
				return nil, ErrPath
			}
			cur = c
		case "arr":
			if !strings.HasPrefix(seg, "#") {
				return nil, ErrPath
			}
			i, err := strconv.Atoi(seg[1:])
			if err != nil || i < 0 || i >= len(cur.Arr) {
				return nil, ErrPath
			}
			cur = cur.Arr[i]
		default:
			return nil, ErrPath
		}
	}
	return cur, nil
}

func copyAttrs(a map[string]string) map[string]string {
	if a == nil {
		return nil
	}
	m := make(map[string]string, len(a))
	for k, v := range a {
		m[k] = v
	}
	return m
}

// Apply performs the edit on the model. It returns ErrPath when the edit is
// not valid for the model's state.
func (n *Node) Apply(e *gen.Edit) error {
	if strings.HasPrefix(e.Op, "pres.") || e.Op == "noop" {
		return nil
	}
	c, err := n.resolve(e.Path)
	if err != nil {
		return err
	}
	switch e.Op {
	case "obj.set":
		if c.Kind != "obj" {
			return ErrPath
		}
		c.Obj[e.K] = newVal(e.V)
	case "obj.del":
		if c.Kind != "obj" {
			return ErrPath
		}
		delete(c.Obj, e.K)
	case "arr.add":
		if c.Kind != "arr" {
			return ErrPath
		}
		c.Arr = append(c.Arr, newVal(e.V))
	case "arr.ins":
		if c.Kind != "arr" || e.I >= len(c.Arr) {
			return ErrPath
		}
		v := newVal(e.V)
		c.Arr = append(c.Arr[:e.I+1], append([]*Node{v}, c.Arr[e.I+1:]...)...)
	case "arr.del":
		if c.Kind != "arr" || e.I >= len(c.Arr) {
			return ErrPath
		}
		c.Arr = append(c.Arr[:e.I], c.Arr[e.I+1:]...)
	case "arr.move": // move element J after element I
		if c.Kind != "arr" || e.I >= len(c.Arr) || e.J >= len(c.Arr) {
			return ErrPath
		}
		if e.I == e.J {
			c.Arr[e.J].Moved = true
			return nil
		}
		prev, tgt := c.Arr[e.I], c.Arr[e.J]
		rest := append(append([]*Node(nil), c.Arr[:e.J]...), c.Arr[e.J+1:]...)
		var out []*Node
		for _, x := range rest {
			out = append(out, x)
			if x == prev {
				out = append(out, tgt)
			}
		}
		tgt.Moved = true
		c.Arr = out
	case "arr.before": // move element J right before element I
		if c.Kind != "arr" || e.I >= len(c.Arr) || e.J >= len(c.Arr) || e.I == e.J {
			return ErrPath
		}
		next, tgt := c.Arr[e.I], c.Arr[e.J]
		rest := append(append([]*Node(nil), c.Arr[:e.J]...), c.Arr[e.J+1:]...)
		var out []*Node
		for _, x := range rest {
			if x == next {
				out = append(out, tgt)
			}
			out = append(out, x)
		}
		tgt.Moved = true
		c.Arr = out
	case "arr.front":
		if c.Kind != "arr" || e.I >= len(c.Arr) {
			return ErrPath
		}
		tgt := c.Arr[e.I]
		rest := append(append([]*Node(nil), c.Arr[:e.I]...), c.Arr[e.I+1:]...)
		c.Arr = append([]*Node{tgt}, rest...)
		tgt.Moved = true
	case "arr.last":
		if c.Kind != "arr" || e.I >= len(c.Arr) {
			return ErrPath
		}
		tgt := c.Arr[e.I]
		rest := append(append([]*Node(nil), c.Arr[:e.I]...), c.Arr[e.I+1:]...)
		c.Arr = append(rest, tgt)
		tgt.Moved = true
	case "arr.set":
		if c.Kind != "arr" || e.I >= len(c.Arr) {
			return ErrPath
		}
		c.Arr[e.I] = newVal(e.V)
	case "txt.edit":
		if c.Kind != "txt" || e.I > e.J || e.J > len(c.Units) {
			return ErrPath
		}
		ins := utf16.Encode([]rune(e.S))
		units := append(append(append([]uint16(nil), c.Units[:e.I]...), ins...), c.Units[e.J:]...)
		attrs := append([]map[string]string(nil), c.Attrs[:e.I]...)
		for range ins {
			attrs = append(attrs, copyAttrs(e.A))
		}
		attrs = append(attrs, c.Attrs[e.J:]...)
		c.Units, c.Attrs = units, attrs
	case "txt.style":
		if c.Kind != "txt" || e.I >= e.J || e.J > len(c.Units) {
			return ErrPath
		}
		for i := e.I; i < e.J; i++ {
			m := copyAttrs(c.Attrs[i])
			if m == nil {
				m = map[string]string{}
			}
			for k, v := range e.A {
				m[k] = v
			}
			c.Attrs[i] = m
		}
	case "cnt.inc":
		if c.Kind != "cnt" {
			return ErrPath
		}
		switch {
		case c.Dedup:
			c.Seen[e.S] = true
			c.Cnt = int64(len(c.Seen))
		case c.Long:
			c.Cnt += e.N
		default:
			c.Cnt = int64(int32(c.Cnt) + int32(int(int32(e.N))))
		}
	case "tree.edit":
		if c.Kind != "tree" {
			return ErrPath
		}
		return c.Tree.edit(e.I, e.J, e.T)
	case "tree.style":
		if c.Kind != "tree" {
			return ErrPath
		}
		return c.Tree.style(e.I, e.J, e.A, nil)
	case "tree.rmstyle":
		if c.Kind != "tree" {
			return ErrPath
		}
		return c.Tree.style(e.I, e.J, nil, e.Keys)
	default:
		return fmt.Errorf("model: unknown op %s", e.Op)
	}
	return nil
}

// ---- tree ----

// Size is the padded size of an element (content + 2).
func (t *TNode) contentSize() int {
	s := 0
	for _, it := range t.Items {
		if it.El != nil {
			s += it.El.contentSize() + 2
		} else {
			s++
		}
	}
	return s
}

// Len is the size of the root's content (Tree.Len()).
func (t *TNode) Len() int { return t.contentSize() }

// locate resolves an index to (parent, item index).
func (t *TNode) locate(idx int) (*TNode, int, bool) {
	acc := 0
	for k, it := range t.Items {
		if idx == acc {
			return t, k, true
		}
		w := 1
		if it.El != nil {
			w = it.El.contentSize() + 2
			if idx > acc && idx < acc+w {
				return it.El.locate(idx - acc - 1)
			}
		}
		acc += w
	}
	if idx == acc {
		return t, len(t.Items), true
	}
	return nil, 0, false
}

func toItems(ns []gen.TN) []TItem {
	var out []TItem
	for _, n := range ns {
		if n.Type == "text" {
			for _, u := range utf16.Encode([]rune(n.Text)) {
				out = append(out, TItem{Ch: u})
			}
			continue
		}
		el := &TNode{Type: n.Type, Attrs: copyAttrs(n.Attrs)}
		el.Items = toItems(n.Kids)
		out = append(out, TItem{El: el})
	}
	return out
}

func (t *TNode) edit(from, to int, content []gen.TN) error {
	p1, k1, ok1 := t.locate(from)
	p2, k2, ok2 := t.locate(to)
	if !ok1 || !ok2 || p1 != p2 || k1 > k2 {
		return ErrPath // outside the same-parent (structure-preserving) domain
	}
	items := append([]TItem(nil), p1.Items[:k1]...)
	items = append(items, toItems(content)...)
	items = append(items, p1.Items[k2:]...)
	p1.Items = items
	return nil
}

func (t *TNode) styleAll(set map[string]string, del []string) {
	if set != nil {
		if t.Attrs == nil {
			t.Attrs = map[string]string{}
		}
		for k, v := range set {
			t.Attrs[k] = v
		}
	}
	for _, k := range del {
		delete(t.Attrs, k)
	}
	for _, it := range t.Items {
		if it.El != nil {
			it.El.styleAll(set, del)
		}
	}
}

func (t *TNode) style(from, to int, set map[string]string, del []string) error {
	p1, k1, ok1 := t.locate(from)
	p2, k2, ok2 := t.locate(to)
	if !ok1 || !ok2 || p1 != p2 || k1 > k2 {
		return ErrPath
	}
	for _, it := range p1.Items[k1:k2] {
		if it.El != nil {
			it.El.styleAll(set, del)
		}
	}
	return nil
}

// XML renders the element like Tree.ToXML.
func (t *TNode) XML() string {
	var sb strings.Builder
	sb.WriteString("<" + t.Type)
	keys := make([]string, 0, len(t.Attrs))
	for k := range t.Attrs {
		keys = append(keys, k)
	}
	sort.Strings(keys)
	for _, k := range keys {
		fmt.Fprintf(&sb, ` %s="%s"`, k, t.Attrs[k])
	}
	sb.WriteString(">")
	var run []uint16
	flush := func() {
		if len(run) > 0 {
			sb.WriteString(string(utf16.Decode(run)))
			run = nil
		}
	}
	for _, it := range t.Items {
		if it.El != nil {
			flush()
			sb.WriteString(it.El.XML())
		} else {
			run = append(run, it.Ch)
		}
	}
	flush()
	sb.WriteString("</" + t.Type + ">")
	return sb.String()
}

// Run is a maximal run of text with equal attributes.
type Run struct {
	Text  string
	Attrs string
}

func attrKey(a map[string]string) string {
	if len(a) == 0 {
		return ""
	}
	keys := make([]string, 0, len(a))
	for k := range a {
		keys = append(keys, k)
	}
	sort.Strings(keys)
	var sb strings.Builder
	for _, k := range keys {
		fmt.Fprintf(&sb, "%s=%q;", k, a[k])
	}
	return sb.String()
}

// Runs returns the text as maximal equal-attribute runs.
func (n *Node) Runs() []Run {
	var out []Run
	var cur []uint16
	curA := ""
	for i, u := range n.Units {
		a := attrKey(n.Attrs[i])
		if i > 0 && a != curA {
			out = append(out, Run{Text: string(utf16.Decode(cur)), Attrs: curA})
			cur = nil
		}
		curA = a
		cur = append(cur, u)
	}
	if len(cur) > 0 {
		out = append(out, Run{Text: string(utf16.Decode(cur)), Attrs: curA})
	}
	return out
}

// MergeRuns merges adjacent runs with equal attributes.
func MergeRuns(rs []Run) []Run {
	var out []Run
	for _, r := range rs {
		if r.Text == "" {
			continue
		}
		if len(out) > 0 && out[len(out)-1].Attrs == r.Attrs {
			out[len(out)-1].Text += r.Text
		} else {
			out = append(out, r)
		}
	}
	return out
}

// AttrKey exposes the canonical attribute encoding.
func AttrKey(a map[string]string) string { return attrKey(a) }

// Canon renders a model as a canonical string: text as merged styled runs,
// trees as XML, objects with sorted keys. Two documents with the same visible
// content have the same Canon whatever their internal chunking.
func Canon(n *Node) string {
	var sb strings.Builder
	canon(n, &sb)
	return sb.String()
}

func canon(n *Node, sb *strings.Builder) {
	switch n.Kind {
	case "obj":
		keys := make([]string, 0, len(n.Obj))
		for k := range n.Obj {
			keys = append(keys, k)
		}
		sort.Strings(keys)
		sb.WriteString("{")
		for i, k := range keys {
			if i > 0 {
				sb.WriteString(",")
			}
			fmt.Fprintf(sb, "%q:", k)
			canon(n.Obj[k], sb)
		}
		sb.WriteString("}")
	case "arr":
		sb.WriteString("[")
		for i, c := range n.Arr {
			if i > 0 {
				sb.WriteString(",")
			}
			canon(c, sb)
		}
		sb.WriteString("]")
	case "prim":
		sb.WriteString(n.Prim)
	case "cnt":
		t := "int"
		if n.Long {
			t = "long"
		}
		if n.Dedup {
			t = "dedup"
		}
		fmt.Fprintf(sb, "counter(%s,%d)", t, n.Cnt)
	case "txt":
		fmt.Fprintf(sb, "text%v", MergeRuns(n.Runs()))
	case "tree":
		sb.WriteString("tree:" + n.Tree.XML())
	default:
		sb.WriteString("?")
	}
}
