package model

import (
	"fmt"
	"sort"
	"strconv"
	"unicode/utf16"

	"github.com/yorkie-team/yorkie/pkg/document/crdt"
)

// Compare walks a document element and a model node in parallel and returns a
// description of the first difference ("" = equal).
func Compare(el crdt.Element, m *Node, path string) string {
	switch v := el.(type) {
	case *crdt.Object:
		if m.Kind != "obj" {
			return fmt.Sprintf("%s: document has an object, model has %s", path, m.Kind)
		}
		mem := v.Members()
		var dk, mk []string
		for k := range mem {
			dk = append(dk, k)
		}
		for k := range m.Obj {
			mk = append(mk, k)
		}
		sort.Strings(dk)
		sort.Strings(mk)
		if fmt.Sprint(dk) != fmt.Sprint(mk) {
			return fmt.Sprintf("%s: keys %v, model expects %v", path, dk, mk)
		}
		for _, k := range dk {
			if d := Compare(mem[k], m.Obj[k], path+"/"+k); d != "" {
				return d
			}
			if v.Get(k) == nil || !v.Has(k) {
				return fmt.Sprintf("%s/%s: Members() lists the key but Get/Has do not find it", path, k)
			}
		}
	case *crdt.Array:
		if m.Kind != "arr" {
			return fmt.Sprintf("%s: document has an array, model has %s", path, m.Kind)
		}
		els := v.Elements()
		if len(els) != len(m.Arr) || v.Len() != len(m.Arr) {
			return fmt.Sprintf("%s: array has %d elements (Len()=%d) %s, model expects %d", path, len(els), v.Len(), v.Marshal(), len(m.Arr))
		}
		for i := range els {
			g, err := v.Get(i)
			if err != nil || g != els[i] {
				return fmt.Sprintf("%s: Get(%d) does not return the %d-th live element (err=%v)", path, i, i, err)
			}
			if d := Compare(els[i], m.Arr[i], fmt.Sprintf("%s/#%d", path, i)); d != "" {
				return d + "   (array: " + v.Marshal() + ")"
			}
		}
	case *crdt.Primitive:
		if m.Kind != "prim" || v.Marshal() != m.Prim {
			return fmt.Sprintf("%s: primitive %s, model expects %s %s", path, v.Marshal(), m.Kind, m.Prim)
		}
	case *crdt.Counter:
		if m.Kind != "cnt" {
			return fmt.Sprintf("%s: document has a counter, model has %s", path, m.Kind)
		}
		want := strconv.FormatInt(m.Cnt, 10)
		if !m.Long && !m.Dedup {
			want = strconv.FormatInt(int64(int32(m.Cnt)), 10)
		}
		if v.Marshal() != want {
			return fmt.Sprintf("%s: counter %s, model expects %s", path, v.Marshal(), want)
		}
	case *crdt.Text:
		if m.Kind != "txt" {
			return fmt.Sprintf("%s: document has a text, model has %s", path, m.Kind)
		}
		want := string(utf16.Decode(m.Units))
		if v.String() != want {
			return fmt.Sprintf("%s: text %q, model expects %q", path, v.String(), want)
		}
		var rs []Run
		for _, n := range v.Nodes() {
			if n.RemovedAt() != nil {
				continue
			}
			a := map[string]string{}
			if n.Value().Attrs() != nil {
				a = n.Value().Attrs().Elements()
			}
			rs = append(rs, Run{Text: n.Value().Value(), Attrs: attrKey(a)})
		}
		got, exp := MergeRuns(rs), MergeRuns(m.Runs())
		if fmt.Sprint(got) != fmt.Sprint(exp) {
			return fmt.Sprintf("%s: styled runs %v, model expects %v", path, got, exp)
		}
		if !v.CheckWeight() {
			return fmt.Sprintf("%s: splay tree weights are inconsistent (CheckWeight)", path)
		}
	case *crdt.Tree:
		if m.Kind != "tree" {
			return fmt.Sprintf("%s: document has a tree, model has %s", path, m.Kind)
		}
		if got, want := v.ToXML(), m.Tree.XML(); got != want {
			return fmt.Sprintf("%s: tree %s, model expects %s", path, got, want)
		}
		if got, want := v.Root().Index.Len(), m.Tree.Len(); got != want {
			return fmt.Sprintf("%s: tree length %d, model expects %d (%s)", path, got, want, v.ToXML())
		}
		// index -> position -> index and index -> path -> index round trips
		for i := 0; i <= m.Tree.Len(); i++ {
			tp, err := v.IndexTree.FindTreePos(i, true)
			if err != nil {
				return fmt.Sprintf("%s: FindTreePos(%d) fails on %s: %v", path, i, v.ToXML(), err)
			}
			back, err := v.IndexTree.IndexOf(tp)
			if err != nil || back != i {
				return fmt.Sprintf("%s: index %d -> position -> index gives %d (err=%v) on %s", path, i, back, err, v.ToXML())
			}
			// paths: only where upstream defines them unambiguously. Inside a parent that
			// holds texts AND elements TreePosToPath counts padded sizes of the left siblings
			// while PathToTreePos (findTextPos) counts visible text lengths; the two are not
			// inverses there, in either SDK, and the property speaks of what a call changes,
			// not of this conversion.
			par := tp.Node
			if par.IsText() {
				par = par.Parent
			}
			hasText, hasElem := false, false
			for _, ch := range par.Children() {
				if ch.IsText() {
					hasText = true
				} else {
					hasElem = true
				}
			}
			if hasText && hasElem {
				if _, err := v.FindPos(i); err != nil {
					return fmt.Sprintf("%s: FindPos(%d) fails on %s: %v", path, i, v.ToXML(), err)
				}
				continue
			}
			pth, err := v.IndexTree.TreePosToPath(tp)
			if err != nil {
				return fmt.Sprintf("%s: TreePosToPath at index %d fails on %s: %v", path, i, v.ToXML(), err)
			}
			back2, err := v.IndexTree.PathToIndex(pth)
			if err != nil || back2 != i {
				return fmt.Sprintf("%s: index %d -> path %v -> index gives %d (err=%v) on %s", path, i, pth, back2, err, v.ToXML())
			}
			if _, err := v.FindPos(i); err != nil {
				return fmt.Sprintf("%s: FindPos(%d) fails on %s: %v", path, i, v.ToXML(), err)
			}
			if _, err := v.PathToPos(pth); err != nil {
				return fmt.Sprintf("%s: PathToPos(%v) fails on %s: %v", path, pth, v.ToXML(), err)
			}
		}
	default:
		return fmt.Sprintf("%s: unexpected element type %T", path, el)
	}
	return ""
}

// FromDoc builds a model of the visible state of a document element.
func FromDoc(el crdt.Element) *Node {
	switch v := el.(type) {
	case *crdt.Object:
		n := &Node{Kind: "obj", Obj: map[string]*Node{}}
		for k, e := range v.Members() {
			n.Obj[k] = FromDoc(e)
		}
		return n
	case *crdt.Array:
		n := &Node{Kind: "arr"}
		for _, e := range v.Elements() {
			c := FromDoc(e)
			if pos, err := v.PosCreatedAt(e.CreatedAt()); err == nil && pos.Key() != e.CreatedAt().Key() {
				c.Moved = true
			}
			n.Arr = append(n.Arr, c)
		}
		return n
	case *crdt.Primitive:
		return &Node{Kind: "prim", Prim: v.Marshal()}
	case *crdt.Counter:
		n := &Node{Kind: "cnt"}
		switch {
		case v.IsDedup():
			n.Dedup = true
			n.Seen = nil // unknown set: dedup counters are re-synchronised, not modelled, after a scar
			i, _ := strconv.ParseInt(v.Marshal(), 10, 64)
			n.Cnt = i
		case v.ValueType() == crdt.LongCnt:
			n.Long = true
			i, _ := strconv.ParseInt(v.Marshal(), 10, 64)
			n.Cnt = i
		default:
			i, _ := strconv.ParseInt(v.Marshal(), 10, 64)
			n.Cnt = i
		}
		return n
	case *crdt.Text:
		n := &Node{Kind: "txt"}
		for _, nd := range v.Nodes() {
			if nd.RemovedAt() != nil {
				continue
			}
			var a map[string]string
			if nd.Value().Attrs() != nil && nd.Value().Attrs().Len() > 0 {
				a = nd.Value().Attrs().Elements()
			}
			for _, u := range utf16.Encode([]rune(nd.Value().Value())) {
				n.Units = append(n.Units, u)
				n.Attrs = append(n.Attrs, copyAttrs(a))
			}
		}
		return n
	case *crdt.Tree:
		return &Node{Kind: "tree", Tree: treeFrom(v.Root())}
	}
	return &Node{Kind: "?"}
}

func treeFrom(n *crdt.TreeNode) *TNode {
	t := &TNode{Type: n.Type()}
	if n.Attrs != nil && n.Attrs.Len() > 0 {
		t.Attrs = n.Attrs.Elements()
	}
	for _, c := range n.Children() {
		if c.IsText() {
			for _, u := range utf16.Encode([]rune(c.Value)) {
				t.Items = append(t.Items, TItem{Ch: u})
			}
		} else {
			t.Items = append(t.Items, TItem{El: treeFrom(c)})
		}
	}
	return t
}
