// Package boot starts a real yorkie server (memdb backend) in-process and
// offers the Admin-API plumbing the checks need.
package boot

import (
	"context"
	"fmt"
	"net"
	"net/http"
	"os"
	"sync"
	"time"

	"connectrpc.com/connect"

	"github.com/yorkie-team/yorkie/admin"
	"github.com/yorkie-team/yorkie/api/types"
	"github.com/yorkie-team/yorkie/api/yorkie/v1/v1connect"
	"github.com/yorkie-team/yorkie/client"
	"github.com/yorkie-team/yorkie/server"
	"github.com/yorkie-team/yorkie/server/backend"
	"github.com/yorkie-team/yorkie/server/backend/housekeeping"
	"github.com/yorkie-team/yorkie/server/backend/membership"
	"github.com/yorkie-team/yorkie/server/logging"
	"github.com/yorkie-team/yorkie/server/profiling"
	"github.com/yorkie-team/yorkie/server/rpc"
)

// Options configures the server.
type Options struct {
	HousekeepingInterval      string // default "24h"
	CompactionMinChanges      int    // default 1000000
	SnapshotCacheSize         int    // default 1000
	SnapshotDisableGC         bool
	UseDefaultProject         *bool // default true
	ClusterSecret             string
	ClientDeactivateThreshold string
	DeactivateConcurrency     int
}

// Env is a running server plus an authenticated admin client.
type Env struct {
	Y                  *server.Yorkie
	BE                 *backend.Backend
	Addr               string
	Admin              *admin.Client
	HTTP               *http.Client
	Conf               *server.Config
	AdminUser, AdminPW string
	mu                 sync.Mutex
	projSeq            int
}

var logOnce sync.Once

func freePort() int {
	for i := 0; i < 50; i++ {
		l, err := net.Listen("tcp", "127.0.0.1:0")
		if err != nil {
			continue
		}
		p := l.Addr().(*net.TCPAddr).Port
		_ = l.Close()
		if p > 1024 {
			return p
		}
	}
	panic("no free port")
}

// Start boots the server.
func Start(o Options) (*Env, error) {
	logOnce.Do(func() {
		lvl := os.Getenv("VERIF_LOGLEVEL")
		if lvl == "" {
			lvl = "fatal"
		}
		_ = logging.SetLogLevel(lvl)
	})
	if o.HousekeepingInterval == "" {
		o.HousekeepingInterval = "24h"
	}
	if o.CompactionMinChanges == 0 {
		o.CompactionMinChanges = 1000000
	}
	if o.SnapshotCacheSize == 0 {
		o.SnapshotCacheSize = 1000
	}
	useDefault := true
	if o.UseDefaultProject != nil {
		useDefault = *o.UseDefaultProject
	}
	var lastErr error
	for attempt := 0; attempt < 5; attempt++ {
		port := freePort()
		addr := fmt.Sprintf("localhost:%d", port)
		conf := &server.Config{
			RPC: &rpc.Config{
				Port: port,
				// The server must never be the side that closes a connection the client
				// still counts as usable. net/http starts ReadHeaderTimeout (5s by
				// default) for the FIRST request of a connection at accept time, and Go's
				// http.Transport parks a dialled connection unused in its idle pool
				// whenever the request that started the dial was served by another
				// connection first. With the default, the server closes such a spare
				// connection 5s after the dial; a request that picks it from the pool at
				// that moment fails with "connection reset by peer" / "use of closed
				// network connection" (and is not retried: POST, first use of the
				// connection). Under load that was seen as request-failed in C16 (conn
				// age 5.5s, first write, no read) although the server's handlers were
				// never involved. Neither timeout is the subject of a property; with 1h
				// the clients' own idle timeouts (60s / 90s) always close first.
				ReadHeaderTimeout: "1h",
				IdleTimeout:       "1h",
			},
			Profiling: &profiling.Config{Port: freePort()},
			Membership: &membership.Config{
				LeaseDuration:   "15s",
				RenewalInterval: "5s",
			},
			Housekeeping: &housekeeping.Config{
				Interval:              o.HousekeepingInterval,
				CandidatesLimit:       100,
				CompactionMinChanges:  o.CompactionMinChanges,
				DeactivateConcurrency: o.DeactivateConcurrency,
			},
			Backend: &backend.Config{
				AdminUser:                     server.DefaultAdminUser,
				AdminPassword:                 server.DefaultAdminPassword,
				AdminTokenDuration:            server.DefaultAdminTokenDuration.String(),
				UseDefaultProject:             useDefault,
				SecretKey:                     server.DefaultSecretKey,
				SnapshotCacheSize:             o.SnapshotCacheSize,
				SnapshotDisableGC:             o.SnapshotDisableGC,
				AuthWebhookCacheSize:          100,
				AuthWebhookCacheTTL:           "10s",
				GatewayAddr:                   addr,
				RPCAddr:                       addr,
				ChannelSessionTTL:             "5s",
				ChannelSessionCleanupInterval: "1s",
				ChannelSessionCountCacheTTL:   "10s",
				ChannelSessionCountCacheSize:  100,
				ClusterRPCTimeout:             "10s",
				ClusterClientTimeout:          "30s",
				ClusterClientPoolSize:         1,
				MaxConcurrentClusterRPCs:      5000,
				ClusterSecret:                 o.ClusterSecret,
			},
		}
		y, err := server.New(conf)
		if err != nil {
			return nil, fmt.Errorf("server.New: %w", err)
		}
		if err := y.Start(); err != nil {
			lastErr = err
			_ = y.Shutdown(false)
			continue
		}
		env := &Env{Y: y, BE: y.Backend(), Addr: addr, Conf: conf}
		env.HTTP = &http.Client{Transport: &http.Transport{
			MaxIdleConns:        256,
			MaxIdleConnsPerHost: 256,
			IdleConnTimeout:     60 * time.Second,
		}}
		if err := waitUp(addr); err != nil {
			lastErr = err
			_ = y.Shutdown(false)
			continue
		}
		ac, err := admin.Dial(addr, admin.WithInsecure(true))
		if err != nil {
			return nil, err
		}
		env.AdminUser, env.AdminPW = server.DefaultAdminUser, server.DefaultAdminPassword
		if _, err := ac.LogIn(context.Background(), env.AdminUser, env.AdminPW); err != nil {
			// without the default project the default user does not exist: sign one up
			env.AdminUser, env.AdminPW = "verifadmin", "Verif-admin-pw-123!"
			if _, e2 := ac.SignUp(context.Background(), env.AdminUser, env.AdminPW); e2 != nil {
				return nil, fmt.Errorf("admin login: %w; sign-up: %v", err, e2)
			}
			if _, e2 := ac.LogIn(context.Background(), env.AdminUser, env.AdminPW); e2 != nil {
				return nil, fmt.Errorf("admin login after sign-up: %w", e2)
			}
		}
		env.Admin = ac
		return env, nil
	}
	return nil, fmt.Errorf("could not start server: %w", lastErr)
}

func waitUp(addr string) error {
	deadline := time.Now().Add(10 * time.Second)
	for time.Now().Before(deadline) {
		c, err := net.DialTimeout("tcp", addr, 200*time.Millisecond)
		if err == nil {
			_ = c.Close()
			return nil
		}
		time.Sleep(20 * time.Millisecond)
	}
	return fmt.Errorf("server at %s did not come up", addr)
}

// Stop shuts the server down.
func (e *Env) Stop() {
	if e.Admin != nil {
		e.Admin.Close()
	}
	_ = e.Y.Shutdown(false)
}

// ProjectOpts are the per-project knobs.
type ProjectOpts struct {
	SnapshotInterval  int64
	SnapshotThreshold int64
	RemoveOnDetach    bool
	MaxAttachments    int
	MaxSizePerDoc     int
	AutoRevision      bool
	DeactivateThresh  string
}

// NoSnapshot is a threshold/interval large enough that no snapshot is ever built.
const NoSnapshot = int64(1) << 40

// NewProject creates a project through the real Admin API and configures it.
func (e *Env) NewProject(ctx context.Context, prefix string, o ProjectOpts) (*types.Project, error) {
	e.mu.Lock()
	e.projSeq++
	n := e.projSeq
	e.mu.Unlock()
	name := fmt.Sprintf("%s-%d", prefix, n)
	if len(name) > 30 {
		name = name[len(name)-30:]
	}
	p, err := e.Admin.CreateProject(ctx, name)
	if err != nil {
		return nil, fmt.Errorf("create project %s: %w", name, err)
	}
	f := &types.UpdatableProjectFields{
		SnapshotInterval:  &o.SnapshotInterval,
		SnapshotThreshold: &o.SnapshotThreshold,
	}
	f.RemoveOnDetach = &o.RemoveOnDetach
	f.AutoRevisionEnabled = &o.AutoRevision
	if o.MaxAttachments > 0 {
		f.MaxAttachmentsPerDocument = &o.MaxAttachments
	}
	if o.MaxSizePerDoc > 0 {
		f.MaxSizePerDocument = &o.MaxSizePerDoc
	}
	if o.DeactivateThresh != "" {
		f.ClientDeactivateThreshold = &o.DeactivateThresh
	}
	p2, err := e.Admin.UpdateProject(ctx, p.ID.String(), f)
	if err != nil {
		return nil, fmt.Errorf("update project: %w", err)
	}
	// UpdateProject's answer may not carry secret fields; keep the keys of p.
	if p2.PublicKey == "" {
		p2.PublicKey = p.PublicKey
	}
	if p2.SecretKey == "" {
		p2.SecretKey = p.SecretKey
	}
	return p2, nil
}

// RPC returns a raw YorkieService client authenticated with the given API key.
func (e *Env) RPC(apiKey string) v1connect.YorkieServiceClient {
	return v1connect.NewYorkieServiceClient(e.HTTP, "http://"+e.Addr,
		connect.WithInterceptors(client.NewAuthInterceptor(apiKey, "")))
}

// WaitIdle waits for background work (publish, snapshot store) to finish.
func (e *Env) WaitIdle() { e.BE.WaitIdle() }
