// Package faultdb decorates the server's database.Database (Backend.DB is an
// exported interface field) so that a harness can log every storage call a
// request makes, inject an error before a call or after it took effect, and
// inject yields/delays between the phases of a push-pull.
package faultdb

import (
	"sync"

	"github.com/yorkie-team/yorkie/server/backend/database"
)

// Hook decides what happens around one call. Returning a non-nil error from
// Before makes the call fail without reaching the store; from After makes it
// fail although it took effect.
type Hook interface {
	Before(method string) error
	After(method string, err error) error
}

// DB is the decorator.
type DB struct {
	Inner database.Database
	mu    sync.RWMutex
	hook  Hook
}

// Wrap decorates inner.
func Wrap(inner database.Database) *DB { return &DB{Inner: inner} }

// SetHook installs (or removes with nil) the hook.
func (d *DB) SetHook(h Hook) {
	d.mu.Lock()
	d.hook = h
	d.mu.Unlock()
}

func (d *DB) before(m string) error {
	d.mu.RLock()
	h := d.hook
	d.mu.RUnlock()
	if h == nil {
		return nil
	}
	return h.Before(m)
}

func (d *DB) after(m string, err error) error {
	d.mu.RLock()
	h := d.hook
	d.mu.RUnlock()
	if h == nil {
		return nil
	}
	return h.After(m, err)
}

var _ database.Database = (*DB)(nil)
