// Package sim executes histories (edit / sync / attach / detach / undo ...
// steps over several replicas) against a real in-process server and records
// what happened. Oracles of the individual properties are layered on top.
package sim

import (
	"context"
	"errors"
	"fmt"
	"math"
	"strings"
	"sync/atomic"

	"github.com/yorkie-team/yorkie/api/types"
	"github.com/yorkie-team/yorkie/pkg/document"
	"github.com/yorkie-team/yorkie/pkg/document/json"
	"github.com/yorkie-team/yorkie/pkg/document/presence"
	"github.com/yorkie-team/yorkie/pkg/key"
	"github.com/yorkie-team/yorkie/server/backend/database"

	"verif/internal/boot"
	"verif/internal/gen"
	"verif/internal/replica"
)

// Step is one history step.
type Step struct {
	T        string            `json:"t"` // attach edit sync syncBegin syncSend syncEnd syncDrop detach undo redo quiesce
	R        int               `json:"r"`
	E        []gen.Edit        `json:"e,omitempty"`
	PushOnly bool              `json:"push_only,omitempty"`
	Pres     map[string]string `json:"pres,omitempty"`
	WireNoGC bool              `json:"wire_nogc,omitempty"` // attach with disable_gc=true on the wire
	NoPres   bool              `json:"no_pres,omitempty"`   // attach with disable_presence=true
}

func (s Step) String() string {
	b := &strings.Builder{}
	fmt.Fprintf(b, "%s r%d", s.T, s.R)
	for _, e := range s.E {
		fmt.Fprintf(b, " [%s]", e.String())
	}
	if s.PushOnly {
		b.WriteString(" push-only")
	}
	return b.String()
}

// WorldCfg is the configuration a history runs under.
type WorldCfg struct {
	Snap        int64 `json:"snap"`          // snapshot threshold+interval; 0 = never
	LocalGCOff  bool  `json:"local_gc_off"`  // document.WithDisableGC on every replica
	ServerGCOff bool  `json:"server_gc_off"` // Backend.Config.SnapshotDisableGC
	ColdCache   bool  `json:"cold_cache"`    // remove the snapshot cache entry before every request
	Evict       bool  `json:"evict"`         // touch a decoy document before every request (cache size 1)
}

// History is a replayable case.
type History struct {
	Cfg   WorldCfg `json:"cfg"`
	Steps []Step   `json:"steps"`
}

// Event is what happened at one step.
type Event struct {
	Step    int    `json:"step"`
	What    string `json:"what"`
	Err     string `json:"err,omitempty"`
	Skipped bool   `json:"skipped,omitempty"`
}

// Failure is a violation candidate found while executing.
type Failure struct {
	Kind   string
	Detail string
	Step   int
}

var docSeq atomic.Int64

// World is one document with its replicas.
type World struct {
	Env      *boot.Env
	Cfg      WorldCfg
	Project  *types.Project
	DocKey   key.Key
	Reps     []*replica.Replica
	Obs      replica.Observer
	Events   []Event
	Fail     []Failure
	Snapshot int // number of responses that carried a snapshot (set by observers)
	ctx      context.Context
	tag      string
	stepNo   int
	// OnQuiesce is called after a successful quiescent round with the attached replicas.
	OnQuiesce func(w *World, attached []*replica.Replica)
	// AfterStep is called after every executed step.
	AfterStep func(w *World, st Step, r *replica.Replica)
	Dead      bool // a sync failed: the history cannot continue meaningfully
	// GuardVetoes counts steps the generator did not emit because of a known-finding fence.
	GuardVetoes map[string]int64
	// PreReq is called before every RPC the world issues.
	PreReq func(w *World)
}

// NewWorld creates a world on a project (created by the caller for the cfg).
func NewWorld(env *boot.Env, proj *types.Project, cfg WorldCfg, tag string) *World {
	n := docSeq.Add(1)
	return &World{
		Env:         env,
		Cfg:         cfg,
		Project:     proj,
		DocKey:      key.Key(fmt.Sprintf("doc-%s-%d", tag, n)),
		ctx:         context.Background(),
		tag:         fmt.Sprintf("%s-%d", tag, n),
		GuardVetoes: map[string]int64{},
	}
}

func (w *World) fail(kind, detail string) {
	w.Fail = append(w.Fail, Failure{Kind: kind, Detail: detail, Step: w.stepNo})
}

func (w *World) Rep(i int) *replica.Replica {
	for len(w.Reps) <= i {
		idx := len(w.Reps)
		r := replica.New(fmt.Sprintf("r%d", idx), w.Project.PublicKey,
			fmt.Sprintf("cli-%s-%d", w.tag, idx), w.Env.RPC(w.Project.PublicKey))
		r.Obs = w.Obs
		w.Reps = append(w.Reps, r)
	}
	return w.Reps[i]
}

// Attached lists replicas whose document is attached.
func (w *World) Attached() []*replica.Replica {
	var out []*replica.Replica
	for _, r := range w.Reps {
		if r.Doc != nil && r.Doc.Status() == document.StatusAttached {
			out = append(out, r)
		}
	}
	return out
}

func (w *World) preRequest() {
	if w.PreReq != nil {
		w.PreReq(w)
	}
	if w.Cfg.ColdCache {
		if di, err := w.DocInfo(); err == nil {
			w.Env.BE.Cache.Snapshot.Remove(di.RefKey())
		}
	}
}

func (w *World) postRequest() {
	w.Env.WaitIdle()
}

// DocInfo returns the server's document record.
func (w *World) DocInfo() (*database.DocInfo, error) {
	return w.Env.BE.DB.FindDocInfoByKey(w.ctx, w.Project.ID, w.DocKey)
}

// ServerLog returns all stored changes of the document.
func (w *World) ServerLog() ([]*database.ChangeInfo, error) {
	di, err := w.DocInfo()
	if err != nil {
		return nil, err
	}
	return w.Env.BE.DB.FindChangeInfosBetweenServerSeqs(w.ctx, di.RefKey(), 1, math.MaxInt64)
}

// Exec runs one step. It never panics; failures are appended to w.Fail.
func (w *World) Exec(st Step) {
	w.stepNo = len(w.Events)
	ev := Event{Step: w.stepNo, What: st.String()}
	defer func() {
		if x := recover(); x != nil {
			ev.Err = fmt.Sprintf("PANIC: %v", x)
			w.fail("panic", fmt.Sprintf("step %d (%s): panic: %v", w.stepNo, st.String(), x))
			w.Dead = true
		}
		w.Events = append(w.Events, ev)
	}()
	if w.Dead {
		ev.Skipped = true
		return
	}
	r := w.Rep(st.R)
	switch st.T {
	case "attach":
		if !r.Activated {
			if err := r.Activate(w.ctx); err != nil {
				ev.Err = err.Error()
				w.fail("activate-failed", err.Error())
				w.Dead = true
				return
			}
		}
		var opts []document.Option
		if w.Cfg.LocalGCOff {
			opts = append(opts, document.WithDisableGC())
		}
		w.preRequest()
		err := r.Attach(w.ctx, w.DocKey, replica.AttachOpts{
			Presence: st.Pres, DisableGC: st.WireNoGC, DisablePresence: st.NoPres, DocOpts: opts,
		})
		w.postRequest()
		if err != nil {
			ev.Err = err.Error()
			w.fail("attach-failed", fmt.Sprintf("step %d: %s attach: %v", w.stepNo, r.Name, err))
			w.Dead = true
		}
	case "edit":
		if r.Doc == nil {
			ev.Skipped = true
			return
		}
		err := r.Update(func(root *json.Object, p *presence.Presence) error {
			for i := range st.E {
				if err := gen.Apply(root, p, &st.E[i]); err != nil {
					return err
				}
			}
			return nil
		})
		if err != nil {
			ev.Err = err.Error()
			if errors.Is(err, gen.ErrUnresolvable) {
				ev.Skipped = true
			} else {
				w.fail("edit-failed", fmt.Sprintf("step %d: %s %s: %v", w.stepNo, r.Name, st.String(), err))
			}
		}
	case "sync":
		if r.Doc == nil || r.Doc.Status() != document.StatusAttached || r.Pending != nil {
			ev.Skipped = true
			return
		}
		w.preRequest()
		err := r.Sync(w.ctx, st.PushOnly)
		w.postRequest()
		if err != nil {
			ev.Err = err.Error()
			w.fail("sync-failed", fmt.Sprintf("step %d: %s sync: %v", w.stepNo, r.Name, err))
			w.Dead = true
		}
	case "syncBegin":
		if r.Doc == nil || r.Doc.Status() != document.StatusAttached || r.Pending != nil {
			ev.Skipped = true
			return
		}
		if err := r.SyncBegin(st.PushOnly); err != nil {
			ev.Err = err.Error()
			w.fail("sync-failed", err.Error())
			w.Dead = true
		}
	case "syncSend":
		if r.Pending == nil {
			ev.Skipped = true
			return
		}
		w.preRequest()
		err := r.SyncSend(w.ctx)
		w.postRequest()
		if err != nil {
			ev.Err = err.Error()
			w.fail("sync-failed", fmt.Sprintf("step %d: %s syncSend: %v", w.stepNo, r.Name, err))
			w.Dead = true
		}
	case "syncEnd":
		if r.Pending == nil {
			ev.Skipped = true
			return
		}
		if !r.Pending.Sent {
			w.preRequest()
			err := r.SyncSend(w.ctx)
			w.postRequest()
			if err != nil {
				ev.Err = err.Error()
				w.fail("sync-failed", fmt.Sprintf("step %d: %s syncSend: %v", w.stepNo, r.Name, err))
				w.Dead = true
				return
			}
		}
		if err := r.SyncEnd(); err != nil {
			ev.Err = err.Error()
			w.fail("sync-failed", fmt.Sprintf("step %d: %s syncEnd: %v", w.stepNo, r.Name, err))
			w.Dead = true
		}
	case "syncDrop":
		r.SyncDrop()
	case "detach":
		if r.Doc == nil || r.Doc.Status() != document.StatusAttached || r.Pending != nil {
			ev.Skipped = true
			return
		}
		w.preRequest()
		err := r.Detach(w.ctx)
		w.postRequest()
		if err != nil {
			ev.Err = err.Error()
			w.fail("detach-failed", fmt.Sprintf("step %d: %s detach: %v", w.stepNo, r.Name, err))
			w.Dead = true
		}
	case "deactivate":
		if !r.Activated {
			ev.Skipped = true
			return
		}
		w.preRequest()
		err := r.Deactivate(w.ctx)
		w.postRequest()
		if err != nil {
			ev.Err = err.Error()
			w.fail("deactivate-failed", fmt.Sprintf("step %d: %s deactivate: %v", w.stepNo, r.Name, err))
			w.Dead = true
		}
	case "hostile-presence":
		// the replica starts sending presence although the document opted out
		if r.Doc != nil {
			r.Doc.SetDisablePresence(false)
		}
	case "undo", "redo":
		if r.Doc == nil {
			ev.Skipped = true
			return
		}
		var err error
		func() {
			defer func() {
				if x := recover(); x != nil {
					err = fmt.Errorf("PANIC: %v", x)
				}
			}()
			if st.T == "undo" {
				err = r.Doc.Undo()
			} else {
				err = r.Doc.Redo()
			}
		}()
		if err != nil {
			ev.Err = err.Error()
			w.fail(st.T+"-failed", fmt.Sprintf("step %d: %s %s: %v", w.stepNo, r.Name, st.T, err))
		}
	case "quiesce":
		w.Quiesce()
	default:
		w.fail("harness", "unknown step "+st.T)
	}
	if w.AfterStep != nil && !w.Dead {
		w.AfterStep(w, st, r)
	}
}

// Quiesce syncs every attached replica until nothing is left to exchange,
// then calls OnQuiesce. Returns whether quiescence was observed.
func (w *World) Quiesce() bool {
	if w.Dead {
		return false
	}
	for _, r := range w.Reps {
		if r.Pending != nil {
			// deliver outstanding in-flight syncs first
			if !r.Pending.Sent {
				w.preRequest()
				err := r.SyncSend(w.ctx)
				w.postRequest()
				if err != nil {
					w.fail("sync-failed", fmt.Sprintf("quiesce: %s syncSend: %v", r.Name, err))
					w.Dead = true
					return false
				}
			}
			if err := r.SyncEnd(); err != nil {
				w.fail("sync-failed", fmt.Sprintf("quiesce: %s syncEnd: %v", r.Name, err))
				w.Dead = true
				return false
			}
		}
	}
	att := w.Attached()
	for round := 0; round < 4; round++ {
		for _, r := range att {
			w.preRequest()
			err := r.Sync(w.ctx, false)
			w.postRequest()
			if err != nil {
				w.fail("sync-failed", fmt.Sprintf("quiesce round %d: %s sync: %v", round, r.Name, err))
				w.Dead = true
				return false
			}
		}
		if w.quiet(att) {
			if w.OnQuiesce != nil {
				w.OnQuiesce(w, att)
			}
			return true
		}
	}
	w.fail("no-quiescence", "replicas still have local changes or unequal checkpoints after 4 full sync rounds")
	return false
}

func (w *World) quiet(att []*replica.Replica) bool {
	di, err := w.DocInfo()
	if err != nil {
		return false
	}
	for _, r := range att {
		if r.Doc.HasLocalChanges() {
			return false
		}
		if r.Doc.Checkpoint().ServerSeq != di.ServerSeq {
			return false
		}
	}
	return true
}

// CompareContent reports a divergence among attached replicas (Marshal equality).
func CompareContent(att []*replica.Replica) (bool, string) {
	if len(att) < 2 {
		return true, ""
	}
	ref := att[0].Doc.Marshal()
	for _, r := range att[1:] {
		if m := r.Doc.Marshal(); m != ref {
			return false, fmt.Sprintf("%s: %s\n%s: %s", att[0].Name, ref, r.Name, m)
		}
	}
	return true, ""
}
