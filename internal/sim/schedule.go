package sim

import (
	"fmt"
	"math/rand"

	"github.com/yorkie-team/yorkie/pkg/document"

	"verif/internal/gen"
)

// GenCfg shapes the random schedules.
type GenCfg struct {
	N             int // replicas attached at start (>=1)
	MaxReps       int // late attachers may raise the number up to this
	Steps         int
	Profile       gen.Profile
	SplitSyncPct  int // percent of sync actions that are split into begin/end with steps in between
	PushOnlyPct   int
	DetachPct     int // detach followed (later) by a fresh re-attach
	QuiescePct    int
	UndoPct       int
	Offline       bool // one replica goes offline (edits only) for a long stretch
	PresencePct   int
	MultiEditPct  int                                     // percent of edit steps that put 2-3 edits in one Update
	EditPct       int                                     // default 60
	Guard         func(w *World, r int, e *gen.Edit) bool // returns false to veto an edit (known-finding fences)
	WireNoGCPct   int                                     // percent of attaches that opt out of GC on the wire (such replicas only make counter / primitive edits)
	FirstNoPres   bool                                    // the document is created with disable_presence
	OtherPresPct  int                                     // percent of later attaches that ask for the other disable_presence value
	DeactivatePct int                                     // percent of "detach" actions that are a server-side deactivation instead
	HostilePct    int                                     // percent chance per attach (presenceless docs) that the replica keeps sending presence anyway
	SingleWriter  bool                                    // only replica 0 edits; the others sync (and collect) at their own pace
}

// noGCProfile is what a replica attached with disable_gc may do (docs/design/disable-gc-on-attach.md).
var noGCProfile = gen.Profile{Obj: 1, Cnt: 3, DeleteBias: 0, NewContainers: 0, MaxDepth: 1, NoDedup: true, PrimOnly: true}

// RunGenerated generates and executes a history step by step.
func (w *World) RunGenerated(rng *rand.Rand, g GenCfg) History {
	h := History{Cfg: w.Cfg}
	do := func(st Step) {
		h.Steps = append(h.Steps, st)
		w.Exec(st)
	}
	if g.EditPct == 0 {
		g.EditPct = 60
	}
	do(Step{T: "attach", R: 0, Pres: map[string]string{"n": "r0"}, NoPres: g.FirstNoPres})
	do(Step{T: "edit", R: 0, E: gen.InitEdits()})
	do(Step{T: "sync", R: 0})
	noGC := map[int]bool{}
	for i := 1; i < g.N; i++ {
		st := Step{T: "attach", R: i, Pres: map[string]string{"n": fmt.Sprintf("r%d", i)}, NoPres: g.FirstNoPres}
		if rng.Intn(100) < g.OtherPresPct {
			st.NoPres = !g.FirstNoPres
		}
		if rng.Intn(100) < g.WireNoGCPct {
			st.WireNoGC = true
			noGC[i] = true
		}
		do(st)
		if g.FirstNoPres && rng.Intn(100) < g.HostilePct {
			do(Step{T: "hostile-presence", R: i})
		}
	}
	offline := -1
	offlineLeft := 0
	if g.Offline && g.N >= 2 {
		offline = rng.Intn(g.N)
		offlineLeft = g.Steps/3 + rng.Intn(g.Steps/3+1)
	}
	detached := map[int]bool{}
	for s := 0; s < g.Steps && !w.Dead; s++ {
		// occasionally bring in a late attacher or re-attach a detached one
		if len(w.Reps) < g.MaxReps && rng.Intn(100) < 3 {
			st := Step{T: "attach", R: len(w.Reps), Pres: map[string]string{"n": "late"}, NoPres: g.FirstNoPres}
			if rng.Intn(100) < g.OtherPresPct {
				st.NoPres = !g.FirstNoPres
			}
			if rng.Intn(100) < g.WireNoGCPct {
				st.WireNoGC = true
				noGC[st.R] = true
			}
			do(st)
			continue
		}
		if len(detached) > 0 && rng.Intn(100) < 30 {
			for r := range detached {
				delete(detached, r)
				if !w.Reps[r].Activated {
					// deactivated earlier: a new client identity is needed
					continue
				}
				do(Step{T: "attach", R: r, Pres: map[string]string{"n": "again"}, WireNoGC: noGC[r], NoPres: g.FirstNoPres})
				break
			}
			continue
		}
		var cand []int
		for i, r := range w.Reps {
			if r.Doc != nil && r.Doc.Status() == document.StatusAttached {
				cand = append(cand, i)
			}
		}
		if len(cand) == 0 {
			break
		}
		ri := cand[rng.Intn(len(cand))]
		r := w.Reps[ri]
		isOffline := ri == offline && offlineLeft > 0
		if offlineLeft > 0 {
			offlineLeft--
		}
		x := rng.Intn(100)
		editPct := g.EditPct
		if g.SingleWriter && ri == 0 {
			// the writer syncs seldom: it keeps tombstones that its readers purge meanwhile
			editPct = 80
		}
		switch {
		case (x < editPct || isOffline) && g.SingleWriter && ri != 0:
			// a reader: it only pulls (and collects)
			if r.Pending != nil {
				do(Step{T: "syncEnd", R: ri})
			} else {
				do(Step{T: "sync", R: ri})
			}
		case x < editPct || isOffline:
			if g.UndoPct > 0 && rng.Intn(100) < g.UndoPct {
				if rng.Intn(3) == 0 {
					do(Step{T: "redo", R: ri})
				} else {
					do(Step{T: "undo", R: ri})
				}
				continue
			}
			if g.PresencePct > 0 && rng.Intn(100) < g.PresencePct {
				do(Step{T: "edit", R: ri, E: []gen.Edit{presEdit(rng)}})
				continue
			}
			n := 1
			if rng.Intn(100) < g.MultiEditPct {
				n = 2 + rng.Intn(2)
			}
			// multi-edit updates are generated one by one against the evolving
			// state by executing them as separate probes is not possible inside
			// one Update; so only the first edit is state-dependent and the
			// rest target different container kinds via fresh scans is skipped:
			// we simply generate n edits for disjoint root containers.
			prof := g.Profile
			if noGC[ri] {
				prof = noGCProfile
			}
			conts := gen.Scan(r.Doc.Root().Object, prof.MaxDepth)
			var es []gen.Edit
			used := map[string]bool{}
			for k := 0; k < n; k++ {
				var e gen.Edit
				ok := false
				for try := 0; try < 6; try++ {
					e = prof.Next(rng, conts, r.Name)
					top := e.K
					if len(e.Path) > 0 {
						top = e.Path[0]
					}
					if used[top] {
						continue
					}
					if g.Guard != nil && !g.Guard(w, ri, &e) {
						continue
					}
					used[top] = true
					ok = true
					break
				}
				if ok {
					es = append(es, e)
				}
			}
			if len(es) == 0 {
				continue
			}
			do(Step{T: "edit", R: ri, E: es})
		case x < g.EditPct+25:
			if r.Pending != nil {
				do(Step{T: "syncEnd", R: ri})
			} else if rng.Intn(100) < g.SplitSyncPct {
				do(Step{T: "syncBegin", R: ri})
				if rng.Intn(2) == 0 {
					do(Step{T: "syncSend", R: ri})
				}
			} else {
				do(Step{T: "sync", R: ri, PushOnly: rng.Intn(100) < g.PushOnlyPct})
			}
		case x < g.EditPct+25+g.DetachPct:
			// Fence of recorded finding F-SNAPVV-EMPTY: never let the set of
			// attached GC-participating replicas become empty (a snapshot stored
			// at such a moment persists an empty version vector).
			others := 0
			for _, ci := range cand {
				if ci != ri && !noGC[ci] {
					others++
				}
			}
			if others >= 1 && r.Pending == nil {
				if rng.Intn(100) < g.DeactivatePct {
					do(Step{T: "deactivate", R: ri})
				} else {
					do(Step{T: "detach", R: ri})
					detached[ri] = true
				}
			} else {
				w.GuardVetoes["detach_last_participant"]++
			}
		case x < g.EditPct+25+g.DetachPct+g.QuiescePct:
			do(Step{T: "quiesce"})
		default:
			if r.Pending != nil {
				do(Step{T: "syncEnd", R: ri})
			} else {
				do(Step{T: "sync", R: ri})
			}
		}
	}
	do(Step{T: "quiesce"})
	return h
}

func presEdit(rng *rand.Rand) gen.Edit {
	switch rng.Intn(5) {
	case 0:
		return gen.Edit{Op: "pres.replace", P: map[string]string{"k": fmt.Sprint(rng.Intn(5))}}
	default:
		return gen.Edit{Op: "pres.set", P: map[string]string{[]string{"c", "s", "n"}[rng.Intn(3)]: fmt.Sprint(rng.Intn(9))}}
	}
}

// RunHistory replays fixed steps.
func (w *World) RunHistory(h History) {
	for _, st := range h.Steps {
		w.Exec(st)
	}
}
