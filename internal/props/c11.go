package props

import (
	"context"
	"encoding/json"
	"fmt"
	"sort"
	"strings"
	"sync/atomic"

	"connectrpc.com/connect"

	"github.com/yorkie-team/yorkie/api/converter"
	"github.com/yorkie-team/yorkie/api/types"
	api "github.com/yorkie-team/yorkie/api/yorkie/v1"
	"github.com/yorkie-team/yorkie/api/yorkie/v1/v1connect"
	"github.com/yorkie-team/yorkie/pkg/document"
	yjson "github.com/yorkie-team/yorkie/pkg/document/json"
	"github.com/yorkie-team/yorkie/pkg/document/presence"
	"github.com/yorkie-team/yorkie/pkg/document/time"
	"github.com/yorkie-team/yorkie/pkg/key"
	"github.com/yorkie-team/yorkie/server/backend/database"
	"github.com/yorkie-team/yorkie/server/backend/database/memory"

	"verif/internal/boot"
	"verif/internal/faultdb"
	"verif/internal/runner"
)

type c11 struct{}

func init() { register(c11{}) }

func (c11) ID() string    { return "C11" }
func (c11) Level() string { return "exploration" }
func (c11) Rule() string {
	return "case = a sequence of raw RPC calls over the alphabet {Activate(c), Deactivate(c), Attach(c,d), PushPull(c,d,+1 change), " +
		"Detach(c,d,+change), Remove(c,d,+change)} x 2 clients x 2 documents, every call valid OR invalid, on fresh client and " +
		"document keys of the real server. Small-scope exhaustive: ALL sequences up to length 4 (quick) / 5 (thorough) modulo " +
		"renaming of clients/documents (first-mentioned client is 0, first-mentioned document is 0), ALL continuations up to length 3 / 4 of the prefix [act(c0) act(c1) attach(c0,d0) attach(c1,d0)], plus PRNG-sampled sequences of " +
		"length 6-8 with at most two rejected calls. A reference state machine (docs/design/document-client-lifecycle.md + " +
		"client_info.go) predicts accept/reject. Oracle per call: decision equals the model; a rejected call leaves the change logs, " +
		"the client record and the version-vector rows unchanged; an accepted call stores exactly the changes it carried (none once " +
		"the document is removed); after Detach/Remove/Deactivate the client's version-vector row is gone and the stored status " +
		"is detached/removed; after Remove every later accepted response on that document carries is_removed. Non-trivial = " +
		"the sequence contains at least one accepted Attach. Race family (the last 440 / 1320 cases): TWO requests of ONE client in flight " +
		"(push||detach, detach||push, push||deactivate, deactivate||push, push||remove, remove||push, detach||detach, pushonly||detach, " +
		"detach||deactivate, attach||attach, detach||attach); the first is stalled before or after its k-th storage call (k enumerated over " +
		"all its calls, through a decorator of Backend.DB), the second is started and finishes or waits for a lock, then the first is " +
		"released. Oracle on the outcome, whatever order the server chose: a Detach / Deactivate / Remove that was answered OK has taken " +
		"effect for good (stored status, no version-vector row), a PushPull sent afterwards is refused and stores nothing, no (actor, " +
		"clientSeq) is in the log twice, two Attaches are not both accepted, the bystander still syncs."
}
func (c11) Assumptions() []string {
	return []string{"memdb backend (rows read through the verif-tagged accessor VerifVersionVectors)", "synchronous DeactivateClient", "error codes are only classified accept/reject"}
}

func (c11) Exhaustive(tier string) bool { return false }
func (c11) Floors(string) []runner.Floor {
	return []runner.Floor{{Stat: "calls", Min: 50000}, {Stat: "rejected_calls_checked_for_side_effects", Min: 10000},
		{Stat: "race_cases_with_a_stalled_request", Min: 150}, {Stat: "race_late_writes_checked", Min: 100}}
}

// ---- enumeration ----

type lcOp struct {
	K string `json:"k"` // act deact attach attachx push detach remove (attachx = Attach with a checkpoint beyond the server state: fails after the attaching status was persisted)
	C int    `json:"c"`
	D int    `json:"d"`
}

func (o lcOp) String() string {
	if o.K == "act" || o.K == "deact" {
		return fmt.Sprintf("%s(c%d)", o.K, o.C)
	}
	return fmt.Sprintf("%s(c%d,d%d)", o.K, o.C, o.D)
}

var lcAlphabet = func() []lcOp {
	var out []lcOp
	for c := 0; c < 2; c++ {
		out = append(out, lcOp{K: "act", C: c}, lcOp{K: "deact", C: c})
		for d := 0; d < 2; d++ {
			for _, k := range []string{"attach", "attachx", "push", "detach", "remove"} {
				out = append(out, lcOp{K: k, C: c, D: d})
			}
		}
	}
	return out
}()

// canonical sequences: clients and documents appear in order of first mention.
func enumSeqs(maxLen int) [][]lcOp {
	var out [][]lcOp
	var rec func(prefix []lcOp, maxC, maxD int)
	rec = func(prefix []lcOp, maxC, maxD int) {
		if len(prefix) > 0 {
			out = append(out, append([]lcOp(nil), prefix...))
		}
		if len(prefix) == maxLen {
			return
		}
		for _, o := range lcAlphabet {
			if o.C > maxC+1 {
				continue
			}
			hasD := o.K != "act" && o.K != "deact"
			if hasD && o.D > maxD+1 {
				continue
			}
			nc, nd := maxC, maxD
			if o.C > nc {
				nc = o.C
			}
			if hasD && o.D > nd {
				nd = o.D
			}
			rec(append(prefix, o), nc, nd)
		}
	}
	rec(nil, -1, -1)
	return out
}

var seqCache = map[int][][]lcOp{}

// lcPrefix brings both clients to the most interesting state: both attached to d0.
var lcPrefix = []lcOp{{K: "act", C: 0}, {K: "act", C: 1}, {K: "attach", C: 0, D: 0}, {K: "attach", C: 1, D: 0}}

func enumAll(maxLen int) [][]lcOp {
	var out [][]lcOp
	var rec func(prefix []lcOp)
	rec = func(prefix []lcOp) {
		if len(prefix) > 0 {
			out = append(out, append(append([]lcOp(nil), lcPrefix...), prefix...))
		}
		if len(prefix) == maxLen {
			return
		}
		for _, o := range lcAlphabet {
			rec(append(prefix, o))
		}
	}
	rec(nil)
	return out
}

func lcSeqs(tier string) [][]lcOp {
	n := 4
	if tier == "thorough" {
		n = 5
	}
	if s, ok := seqCache[n]; ok {
		return s
	}
	s := enumSeqs(n)
	// second exhaustive family: every continuation of length <= n-1 after both clients attached d0
	s = append(s, enumAll(n-1)...)
	seqCache[n] = s
	return s
}

const lcBatch = 64

func (c11) NumCases(tier string, _ int64) int {
	n := (len(lcSeqs(tier)) + lcBatch - 1) / lcBatch
	sampled := 4000
	if tier == "thorough" {
		sampled = 3000
	}
	return n + sampled + raceCases(tier)
}

func raceCases(tier string) int {
	if tier == "thorough" {
		return len(racePairs) * 120
	}
	return len(racePairs) * 40
}

// ---- reference model ----

type lcModel struct {
	cli     [2]string    // none act deact
	att     [2][2]string // none attached detached removed
	attInc  [2][2]int    // incarnation the (c,d) state refers to
	docInc  [2]int       // current incarnation (0 = never created)
	docGone [2]bool      // current incarnation removed
}

func newLcModel() *lcModel {
	m := &lcModel{}
	for c := 0; c < 2; c++ {
		m.cli[c] = "none"
		for d := 0; d < 2; d++ {
			m.att[c][d] = "none"
		}
	}
	return m
}

// attachedNow reports whether c holds the CURRENT incarnation of d attached.
func (m *lcModel) attachedTo(c, d int) (bool, int) {
	if m.att[c][d] == "attached" {
		return true, m.attInc[c][d]
	}
	return false, 0
}

// expect returns whether the call is accepted, and applies the transition when it is.
func (m *lcModel) step(o lcOp) bool {
	switch o.K {
	case "act":
		// ActivateClient always registers a NEW client identity, also for a key
		// that is already active: the slot starts from scratch (the previous
		// identity stays behind on the server until housekeeping deactivates it)
		m.cli[o.C] = "act"
		for d := 0; d < 2; d++ {
			m.att[o.C][d] = "none"
			m.attInc[o.C][d] = 0
		}
		return true
	case "deact":
		if m.cli[o.C] != "act" {
			return false
		}
		for d := 0; d < 2; d++ {
			if m.att[o.C][d] == "attached" || m.att[o.C][d] == "attaching" {
				m.att[o.C][d] = "detached"
			}
		}
		m.cli[o.C] = "deact"
		return true
	case "attach":
		if m.cli[o.C] != "act" {
			return false
		}
		// an attachment to an incarnation that was removed by somebody else does not block a new one
		if ok, inc := m.attachedTo(o.C, o.D); ok && inc == m.docInc[o.D] && !m.docGone[o.D] {
			return false // already attached
		}
		if m.docInc[o.D] == 0 || m.docGone[o.D] {
			m.docInc[o.D]++
			m.docGone[o.D] = false
		}
		m.att[o.C][o.D] = "attached"
		m.attInc[o.C][o.D] = m.docInc[o.D]
		return true
	case "attachx":
		// always refused; but when the client may attach, the refusal comes after
		// the "attaching" status was persisted (documented partial-failure residue)
		if m.cli[o.C] != "act" {
			return false
		}
		if ok, inc := m.attachedTo(o.C, o.D); ok && inc == m.docInc[o.D] && !m.docGone[o.D] {
			return false
		}
		if m.docInc[o.D] == 0 || m.docGone[o.D] {
			m.docInc[o.D]++
			m.docGone[o.D] = false
		}
		m.att[o.C][o.D] = "attaching"
		m.attInc[o.C][o.D] = m.docInc[o.D]
		return false
	case "push", "detach", "remove":
		if m.cli[o.C] != "act" {
			return false
		}
		ok, inc := m.attachedTo(o.C, o.D)
		if !ok && o.K != "push" && m.att[o.C][o.D] == "attaching" {
			ok, inc = true, m.attInc[o.C][o.D]
		}
		if !ok {
			return false
		}
		switch o.K {
		case "detach":
			m.att[o.C][o.D] = "detached"
		case "remove":
			m.att[o.C][o.D] = "removed"
			if inc == m.docInc[o.D] {
				m.docGone[o.D] = true
			}
		}
		return true
	}
	return false
}

// ---- driver ----

type lcClient struct {
	key  string
	id   time.ActorID
	has  bool
	docs [2]*document.Document // local document of the current attachment
	dids [2]string             // document id of the attachment
}

type lcWorld struct {
	w      *c11Worker
	rpc    v1connect.YorkieServiceClient
	proj   *types.Project
	cl     [2]*lcClient
	dkeys  [2]key.Key
	known  map[string]bool // document ids seen (all incarnations)
	curDoc [2]string       // id of the current incarnation of d ("" unknown)
	ctx    context.Context
}

var lcSeq atomic.Int64

func randomHexID(n int64) string { return fmt.Sprintf("%024x", 0xabc0000000+n) }

type lcObs struct {
	logs   map[string]int64  // doc id -> number of stored changes
	rows   map[string]string // doc id -> sorted client ids having a row
	client [2]string         // client record digest
}

func (lw *lcWorld) observe() lcObs {
	o := lcObs{logs: map[string]int64{}, rows: map[string]string{}}
	db := lw.w.env.BE.DB
	mem := lw.w.mem
	for id := range lw.known {
		ref := types.DocRefKey{ProjectID: lw.proj.ID, DocID: types.ID(id)}
		if cs, err := db.FindChangeInfosBetweenServerSeqs(lw.ctx, ref, 1, 1<<62); err == nil {
			o.logs[id] = int64(len(cs))
		}
		if mem != nil {
			if rows, err := mem.VerifVersionVectors(types.ID(id)); err == nil {
				var ids []string
				for _, r := range rows {
					ids = append(ids, r.ClientID.String())
				}
				sort.Strings(ids)
				o.rows[id] = strings.Join(ids, ",")
			}
		}
	}
	for c := 0; c < 2; c++ {
		if !lw.cl[c].has {
			continue
		}
		ci, err := db.FindClientInfoByRefKey(lw.ctx, types.ClientRefKey{ProjectID: lw.proj.ID, ClientID: types.IDFromActorID(lw.cl[c].id)}, true)
		if err != nil {
			o.client[c] = "ERR " + err.Error()
			continue
		}
		o.client[c] = clientDigest(ci)
	}
	return o
}

func clientDigest(ci *database.ClientInfo) string {
	var ds []string
	for id, d := range ci.Documents {
		ds = append(ds, fmt.Sprintf("%s:%s/%d/%d", id, d.Status, d.ServerSeq, d.ClientSeq))
	}
	sort.Strings(ds)
	return ci.Status + " " + strings.Join(ds, " ")
}

func (a lcObs) diff(b lcObs) string {
	var out []string
	for id, n := range a.logs {
		if b.logs[id] != n {
			out = append(out, fmt.Sprintf("change log of %s grew from %d to %d", id, n, b.logs[id]))
		}
	}
	for id, r := range a.rows {
		if b.rows[id] != r {
			out = append(out, fmt.Sprintf("version-vector rows of %s changed from [%s] to [%s]", id, r, b.rows[id]))
		}
	}
	for c := 0; c < 2; c++ {
		if a.client[c] != b.client[c] {
			out = append(out, fmt.Sprintf("client record c%d changed from {%s} to {%s}", c, a.client[c], b.client[c]))
		}
	}
	return strings.Join(out, "; ")
}

func hdr[T any](req *connect.Request[T], keys ...string) *connect.Request[T] {
	req.Header().Add(types.ShardKey, strings.Join(keys, "/"))
	return req
}

// call performs the RPC. It returns (accepted, number of changes carried, isRemoved flag of the response, doc id used, error text).
func (lw *lcWorld) call(o lcOp, m *lcModel, expectOK bool) (bool, int, bool, string, string) {
	cl := lw.cl[o.C]
	clientID := randomHexID(lcSeq.Add(1))
	if cl.has {
		clientID = cl.id.String()
	}
	switch o.K {
	case "act":
		res, err := lw.rpc.ActivateClient(lw.ctx, hdr(connect.NewRequest(&api.ActivateClientRequest{ClientKey: cl.key}), lw.proj.PublicKey, cl.key))
		if err != nil {
			return false, 0, false, "", err.Error()
		}
		id, _ := time.ActorIDFromHex(res.Msg.ClientId)
		cl.id, cl.has = id, true
		cl.docs = [2]*document.Document{}
		cl.dids = [2]string{}
		return true, 0, false, "", ""
	case "deact":
		_, err := lw.rpc.DeactivateClient(lw.ctx, hdr(connect.NewRequest(&api.DeactivateClientRequest{ClientId: clientID, Synchronous: true}), lw.proj.PublicKey, cl.key))
		if err != nil {
			return false, 0, false, "", err.Error()
		}
		return true, 0, false, "", ""
	}
	dkey := lw.dkeys[o.D]
	// the document object used to build the pack: the real one for calls the model accepts, a throw-away otherwise
	var d *document.Document
	docID := lw.curDoc[o.D]
	useReal := expectOK && o.K != "attach" && o.K != "attachx" && cl.docs[o.D] != nil
	if useReal {
		d = cl.docs[o.D]
		docID = cl.dids[o.D]
	} else {
		d = document.New(dkey)
		if cl.has {
			d.SetActor(cl.id)
		} else {
			a, _ := time.ActorIDFromHex(clientID)
			d.SetActor(a)
		}
		if cl.dids[o.D] != "" && o.K != "attach" && o.K != "attachx" {
			docID = cl.dids[o.D] // the id this client knew last
		}
	}
	if docID == "" {
		docID = randomHexID(lcSeq.Add(1))
	}
	edit := func() {
		_ = d.Update(func(root *yjson.Object, p *presence.Presence) error {
			root.SetString(fmt.Sprintf("c%d", o.C), fmt.Sprintf("v%d", lcSeq.Add(1)))
			return nil
		})
	}
	switch o.K {
	case "attachx":
		_ = d.Update(func(root *yjson.Object, p *presence.Presence) error {
			p.Initialize(map[string]string{"n": cl.key})
			return nil
		})
		pack := d.CreateChangePack()
		pb, _ := converter.ToChangePack(pack)
		pb.Checkpoint.ServerSeq = 1 << 40
		_, err := lw.rpc.AttachDocument(lw.ctx, hdr(connect.NewRequest(&api.AttachDocumentRequest{ClientId: clientID, ChangePack: pb}), lw.proj.PublicKey, dkey.String()))
		// learn the id of the document the failed attach may have created
		if di, e := lw.w.env.BE.DB.FindDocInfoByKey(lw.ctx, lw.proj.ID, dkey); e == nil && di != nil {
			lw.known[di.ID.String()] = true
			lw.curDoc[o.D] = di.ID.String()
			if cl.has {
				cl.dids[o.D] = di.ID.String()
			}
		}
		if err != nil {
			return false, len(pack.Changes), false, "", err.Error()
		}
		return true, len(pack.Changes), false, "", ""
	case "attach":
		_ = d.Update(func(root *yjson.Object, p *presence.Presence) error {
			p.Initialize(map[string]string{"n": cl.key})
			return nil
		})
		pack := d.CreateChangePack()
		pb, _ := converter.ToChangePack(pack)
		res, err := lw.rpc.AttachDocument(lw.ctx, hdr(connect.NewRequest(&api.AttachDocumentRequest{ClientId: clientID, ChangePack: pb}), lw.proj.PublicKey, dkey.String()))
		if err != nil {
			return false, len(pack.Changes), false, "", err.Error()
		}
		rp, err := converter.FromChangePack(res.Msg.ChangePack)
		if err == nil {
			err = d.ApplyChangePack(rp)
		}
		if err != nil {
			return true, len(pack.Changes), false, res.Msg.DocumentId, "apply: " + err.Error()
		}
		d.SetStatus(document.StatusAttached)
		cl.docs[o.D], cl.dids[o.D] = d, res.Msg.DocumentId
		lw.known[res.Msg.DocumentId] = true
		lw.curDoc[o.D] = res.Msg.DocumentId
		return true, len(pack.Changes), res.Msg.ChangePack.IsRemoved, res.Msg.DocumentId, ""
	case "push":
		edit()
		pack := d.CreateChangePack()
		pb, _ := converter.ToChangePack(pack)
		res, err := lw.rpc.PushPullChanges(lw.ctx, hdr(connect.NewRequest(&api.PushPullChangesRequest{ClientId: clientID, DocumentId: docID, ChangePack: pb}), lw.proj.PublicKey, dkey.String()))
		if err != nil {
			return false, len(pack.Changes), false, docID, err.Error()
		}
		if rp, err := converter.FromChangePack(res.Msg.ChangePack); err == nil && useReal {
			_ = d.ApplyChangePack(rp)
		}
		return true, len(pack.Changes), res.Msg.ChangePack.IsRemoved, docID, ""
	case "detach":
		edit()
		_ = d.Update(func(root *yjson.Object, p *presence.Presence) error {
			p.Clear()
			return nil
		})
		pack := d.CreateChangePack()
		pb, _ := converter.ToChangePack(pack)
		res, err := lw.rpc.DetachDocument(lw.ctx, hdr(connect.NewRequest(&api.DetachDocumentRequest{ClientId: clientID, DocumentId: docID, ChangePack: pb}), lw.proj.PublicKey, dkey.String()))
		if err != nil {
			return false, len(pack.Changes), false, docID, err.Error()
		}
		if useReal {
			cl.docs[o.D] = nil
		}
		return true, len(pack.Changes), res.Msg.ChangePack.IsRemoved, docID, ""
	case "remove":
		edit()
		pack := d.CreateChangePack()
		pb, _ := converter.ToChangePack(pack)
		pb.IsRemoved = true
		res, err := lw.rpc.RemoveDocument(lw.ctx, hdr(connect.NewRequest(&api.RemoveDocumentRequest{ClientId: clientID, DocumentId: docID, ChangePack: pb}), lw.proj.PublicKey, dkey.String()))
		if err != nil {
			return false, len(pack.Changes), false, docID, err.Error()
		}
		if useReal {
			cl.docs[o.D] = nil
		}
		return true, len(pack.Changes), res.Msg.ChangePack.IsRemoved, docID, ""
	}
	return false, 0, false, "", "unknown op"
}

type c11Worker struct {
	*simWorker
	mem  *memory.DB // the store itself (the race family wraps Backend.DB)
	fdb  *faultdb.DB
	gate *gateHook
}

// raceSetup wraps the database with the stall gate on the first race case.
func (w *c11Worker) raceSetup() error {
	if w.fdb != nil {
		return nil
	}
	w.gate = &gateHook{}
	w.fdb = faultdb.Wrap(w.env.BE.DB)
	w.env.BE.DB = w.fdb
	w.fdb.SetHook(w.gate)
	return nil
}

func (c11) NewWorker(tier string, seed int64) (runner.Worker, error) {
	sw, err := newSimWorker(tier, seed, boot.Options{})
	if err != nil {
		return nil, err
	}
	mem, _ := sw.env.BE.DB.(*memory.DB)
	return &c11Worker{simWorker: sw, mem: mem}, nil
}

// runSeq executes one sequence; returns a violation description ("" = none) and an ident.
func (w *c11Worker) runSeq(res *runner.CaseResult, seq []lcOp) (string, string, string) {
	proj, err := w.project(0)
	if err != nil {
		return "", "", ""
	}
	n := lcSeq.Add(1)
	lw := &lcWorld{w: w, rpc: w.env.RPC(proj.PublicKey), proj: proj, known: map[string]bool{}, ctx: context.Background()}
	for c := 0; c < 2; c++ {
		lw.cl[c] = &lcClient{key: fmt.Sprintf("c11-%d-c%d", n, c)}
	}
	for d := 0; d < 2; d++ {
		lw.dkeys[d] = key.Key(fmt.Sprintf("c11-doc-%d-d%d", n, d))
	}
	m := newLcModel()
	removedDocs := map[string]bool{}
	attachOK := false
	for i, o := range seq {
		if o.K == "attachx" && m.cli[o.C] == "act" && (m.att[o.C][o.D] != "none" || m.docGone[o.D]) {
			// the failing attach is modelled only from the plain "never attached, document alive" state
			res.AddStat("sequences_cut_at_unmodelled_attachx", 1)
			break
		}
		probe := *m
		expect := probe.step(o)
		before := lw.observe()
		// which attachment is concerned (for the post-conditions)
		okAtt, _ := m.attachedTo(o.C, o.D)
		if o.K != "act" && o.K != "deact" && m.att[o.C][o.D] == "attaching" {
			okAtt = true
		}
		var targetDoc string
		if okAtt && o.K != "act" && o.K != "deact" && o.K != "attach" && o.K != "attachx" {
			targetDoc = lw.cl[o.C].dids[o.D]
		}
		accepted, nChanges, isRemoved, docID, errText := lw.call(o, m, expect)
		w.env.WaitIdle()
		res.AddStat("calls", 1)
		res.AddSet("ops", o.K)
		after := lw.observe()
		where := fmt.Sprintf("call %d %s of %v", i+1, o, seqString(seq))
		ident := fmt.Sprintf("%s|%s", o.K, stateTag(m, o))
		if strings.HasPrefix(errText, "apply:") {
			return "response-not-applicable", where + ": " + errText, ident
		}
		if accepted != expect {
			if expect {
				return "valid-call-rejected", fmt.Sprintf("%s: the state machine allows it (client=%s, attachment=%s) but the server answered: %s", where, m.cli[o.C], attState(m, o), errText), ident
			}
			return "invalid-call-accepted", fmt.Sprintf("%s: not allowed (client=%s, attachment=%s) but the server accepted it; effects: %s", where, m.cli[o.C], attState(m, o), before.diff(after)), ident
		}
		if !accepted {
			res.AddStat("rejected_calls_checked_for_side_effects", 1)
			if o.K == "attachx" {
				// the model may have moved to "attaching": compare only logs and rows
				m.step(o)
				after.client = before.client
			}
			if d := before.diff(after); d != "" {
				return "rejected-call-has-side-effects", fmt.Sprintf("%s was rejected (%s) but: %s", where, errText, d), ident
			}
			continue
		}
		m.step(o)
		if o.K == "attach" {
			attachOK = true
		}
		// post-conditions of accepted calls
		if docID != "" && o.K != "act" && o.K != "deact" {
			grew := after.logs[docID] - before.logs[docID]
			want := int64(nChanges)
			if removedDocs[docID] {
				want = 0
			}
			if grew != want {
				return "stored-changes-mismatch", fmt.Sprintf("%s carried %d change(s), document removed before=%v, but the log of %s grew by %d", where, nChanges, removedDocs[docID], docID, grew), ident
			}
			if removedDocs[docID] && !isRemoved {
				return "removed-flag-missing", fmt.Sprintf("%s: the document was removed earlier but the response does not carry is_removed", where), ident
			}
		}
		cidT := types.IDFromActorID(lw.cl[o.C].id)
		cid := cidT.String()
		switch o.K {
		case "attach", "push":
			if !removedDocs[docID] && !strings.Contains(after.rows[docID], cid) {
				return "version-vector-row-missing", fmt.Sprintf("%s: accepted, but the client has no version-vector row on %s (rows: [%s])", where, docID, after.rows[docID]), ident
			}
		case "detach", "remove":
			if strings.Contains(after.rows[targetDoc], cid) {
				return "version-vector-row-survives", fmt.Sprintf("%s: accepted, but the client's version-vector row on %s is still there (rows: [%s])", where, targetDoc, after.rows[targetDoc]), ident
			}
			wantSt := map[string]string{"detach": database.DocumentDetached, "remove": database.DocumentRemoved}[o.K]
			if !strings.Contains(after.client[o.C], targetDoc+":"+wantSt) {
				return "stored-status-wrong", fmt.Sprintf("%s: accepted, stored client record is {%s}, expected %s:%s", where, after.client[o.C], targetDoc, wantSt), ident
			}
			if o.K == "remove" {
				removedDocs[targetDoc] = true
			}
		case "deact":
			for id, r := range after.rows {
				if strings.Contains(r, cid) {
					return "version-vector-row-survives", fmt.Sprintf("%s: accepted, but the deactivated client still has a version-vector row on %s", where, id), ident
				}
			}
			if !strings.HasPrefix(after.client[o.C], database.ClientDeactivated) || strings.Contains(after.client[o.C], ":"+database.DocumentAttached+"/") {
				return "stored-status-wrong", fmt.Sprintf("%s: accepted, stored client record is {%s}", where, after.client[o.C]), ident
			}
			lw.cl[o.C].docs = [2]*document.Document{}
		}
	}
	if attachOK {
		res.AddStat("sequences_with_attach", 1)
	}
	return "", "", ""
}

func stateTag(m *lcModel, o lcOp) string {
	if o.K == "act" || o.K == "deact" {
		return "client=" + m.cli[o.C]
	}
	gone := ""
	if m.docGone[o.D] {
		gone = ",doc-removed"
	}
	return "client=" + m.cli[o.C] + ",att=" + m.att[o.C][o.D] + gone
}

func attState(m *lcModel, o lcOp) string {
	if o.K == "act" || o.K == "deact" {
		return "-"
	}
	return m.att[o.C][o.D]
}

func seqString(seq []lcOp) string {
	var s []string
	for _, o := range seq {
		s = append(s, o.String())
	}
	return "[" + strings.Join(s, " ") + "]"
}

func sampledSeq(seed int64, idx int) []lcOp {
	rng := caseRng(seed^0xc11, idx)
	n := 6 + rng.Intn(3)
	m := newLcModel()
	var seq []lcOp
	rejected := 0
	for len(seq) < n {
		o := lcAlphabet[rng.Intn(len(lcAlphabet))]
		probe := *m
		if !probe.step(o) {
			if rejected >= 2 {
				continue
			}
			rejected++
		} else {
			*m = probe
		}
		seq = append(seq, o)
	}
	return seq
}

func (w *c11Worker) Run(idx int) runner.CaseResult {
	res := runner.CaseResult{Case: fmt.Sprintf("c11-%d", idx)}
	if first := (c11{}).NumCases(w.tier, 0) - raceCases(w.tier); idx >= first {
		w.runRace(&res, idx-first)
		return res
	}
	all := lcSeqs(w.tier)
	nb := (len(all) + lcBatch - 1) / lcBatch
	var seqs [][]lcOp
	if idx < nb {
		lo, hi := idx*lcBatch, (idx+1)*lcBatch
		if hi > len(all) {
			hi = len(all)
		}
		seqs = all[lo:hi]
		res.AddStat("exhaustive_sequences", int64(len(seqs)))
	} else {
		seqs = [][]lcOp{sampledSeq(w.seed, idx)}
		res.AddStat("sampled_sequences", 1)
	}
	seenIdent := map[string]bool{}
	for _, s := range seqs {
		kind, detail, ident := w.runSeq(&res, s)
		if kind != "" && !seenIdent[kind+ident] {
			seenIdent[kind+ident] = true
			res.Violate(kind, detail, kind+"|"+ident, map[string]any{"seq": s})
		}
	}
	res.Hash = runner.HashOf(seqs)
	res.Nontrivial = res.Stats["sequences_with_attach"] > 0
	if idx%200 == 0 {
		b, _ := json.Marshal(map[string]any{"sequences_in_this_case": len(seqs), "first": seqString(seqs[0]), "last": seqString(seqs[len(seqs)-1])})
		res.Sample = b
	}
	return res
}

func (w *c11Worker) Replay(data json.RawMessage) runner.CaseResult {
	res := runner.CaseResult{Case: "replay"}
	var rp struct {
		Seq    []lcOp `json:"seq"`
		Family string `json:"family"`
		Idx    int    `json:"idx"`
	}
	if err := json.Unmarshal(data, &rp); err != nil {
		res.Inconclusive = err.Error()
		return res
	}
	if rp.Family == "race" {
		w.runRace(&res, rp.Idx)
		return res
	}
	kind, detail, ident := w.runSeq(&res, rp.Seq)
	if kind != "" {
		res.Violate(kind, detail, kind+"|"+ident, rp)
	}
	return res
}
