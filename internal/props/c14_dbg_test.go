package props

import (
	"encoding/json"
	"fmt"
	"os"
	"testing"

	"github.com/yorkie-team/yorkie/pkg/document/operations"

	"verif/internal/runner"
)

func TestC14Dbg(t *testing.T) {
	f := os.Getenv("C14_REPLAY")
	if f == "" {
		t.Skip()
	}
	b, _ := os.ReadFile(f)
	var d struct {
		Replay c14Replay `json:"replay"`
	}
	_ = json.Unmarshal(b, &d)
	res := &struct{ runner.CaseResult }{}
	_ = res
	r := newC14Run(&res.CaseResult, d.Replay)
	for _, st := range d.Replay.Steps {
		r.do(st)
		fmt.Println("==", st.String(), "->", r.doc.Marshal())
	}
	pack := r.doc.CreateChangePack()
	for _, c := range pack.Changes {
		fmt.Println("change", c.ID().ClientSeq())
		for _, op := range c.Operations() {
			switch o := op.(type) {
			case *operations.Add:
				fmt.Printf("   Add parent=%s prev=%s value=%s %s\n", tk(o.ParentCreatedAt()), tk(o.PrevCreatedAt()), tk(o.Value().CreatedAt()), o.Value().Marshal())
			case *operations.Remove:
				fmt.Printf("   Remove parent=%s target=%s\n", tk(o.ParentCreatedAt()), tk(o.CreatedAt()))
			case *operations.ArraySet:
				fmt.Printf("   ArraySet parent=%s target=%s value=%s %s\n", tk(o.ParentCreatedAt()), tk(o.CreatedAt()), tk(o.Value().CreatedAt()), o.Value().Marshal())
			case *operations.Set:
				fmt.Printf("   Set parent=%s value=%s\n", tk(o.ParentCreatedAt()), tk(o.Value().CreatedAt()))
			default:
				fmt.Printf("   %T parent=%s\n", op, tk(op.ParentCreatedAt()))
			}
		}
	}
	r.deliverToPeer()
	for _, v := range res.Viol {
		fmt.Println(v.Kind, v.Detail)
	}
}
