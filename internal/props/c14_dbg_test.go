package props

import (
	"encoding/json"
	"fmt"
	"os"
	"testing"

	"github.com/yorkie-team/yorkie/pkg/document/crdt"
	"github.com/yorkie-team/yorkie/pkg/document/operations"

	"verif/internal/runner"
)

func TestC14Dbg(t *testing.T) {
	f := os.Getenv("C14_REPLAY")
	if f == "" {
		t.Skip()
	}
	b, _ := os.ReadFile(f)
	var d struct {
		Replay c14Replay `json:"replay"`
	}
	_ = json.Unmarshal(b, &d)
	res := &struct{ runner.CaseResult }{}
	_ = res
	r := newC14Run(&res.CaseResult, d.Replay)
	for _, st := range d.Replay.Steps {
		if os.Getenv("C14_STRUCT") != "" && st.T == "undo" {
			for _, hop := range r.doc.UndoStackTopForTest() {
				op := hop.Op
				switch o := op.(type) {
				case *operations.Add:
					fmt.Printf("   top: Add prev=%s value=%s %s\n", tk(o.PrevCreatedAt()), tk(o.Value().CreatedAt()), o.Value().Marshal())
				case *operations.Remove:
					fmt.Printf("   top: Remove target=%s\n", tk(o.CreatedAt()))
				case *operations.ArraySet:
					fmt.Printf("   top: ArraySet target=%s value=%s %s\n", tk(o.CreatedAt()), tk(o.Value().CreatedAt()), o.Value().Marshal())
				case *operations.Move:
					fmt.Printf("   top: Move prev=%s target=%s\n", tk(o.PrevCreatedAt()), tk(o.CreatedAt()))
				default:
					fmt.Printf("   top: %T\n", op)
				}
			}
		}
		r.do(st)
		fmt.Println("==", st.String(), "->", r.doc.Marshal())
		if os.Getenv("C14_STRUCT") != "" {
			if cs := r.doc.CreateChangePack().Changes; len(cs) > 0 {
				c := cs[len(cs)-1]
				for _, op := range c.Operations() {
					switch o := op.(type) {
					case *operations.Add:
						fmt.Printf("   [%d] Add prev=%s value=%s %s\n", c.ID().ClientSeq(), tk(o.PrevCreatedAt()), tk(o.Value().CreatedAt()), o.Value().Marshal())
					case *operations.Remove:
						fmt.Printf("   [%d] Remove target=%s\n", c.ID().ClientSeq(), tk(o.CreatedAt()))
					case *operations.ArraySet:
						fmt.Printf("   [%d] ArraySet target=%s value=%s %s\n", c.ID().ClientSeq(), tk(o.CreatedAt()), tk(o.Value().CreatedAt()), o.Value().Marshal())
					case *operations.Move:
						fmt.Printf("   [%d] Move prev=%s target=%s\n", c.ID().ClientSeq(), tk(o.PrevCreatedAt()), tk(o.CreatedAt()))
					}
				}
			}
			if a, ok := r.doc.RootObject().Get("arr").(*crdt.Array); ok {
				for _, n := range a.AllRGANodes() {
					if n.Element() == nil {
						fmt.Printf("     slot %s dead r=%s\n", n.IDString(), tk(n.RemovedAt()))
					} else {
						fmt.Printf("     slot pos=%s elem c=%s r=%s m=%s %s\n", tk(n.PositionCreatedAt()), tk(n.Element().CreatedAt()), tk(n.Element().RemovedAt()), tk(n.Element().MovedAt()), n.Element().Marshal())
					}
				}
			}
			fmt.Printf("     garbageLen doc=%d undo=%d\n", r.doc.GarbageLen(), r.doc.UndoStackLenForTest())
		}
	}
	pack := r.doc.CreateChangePack()
	for _, c := range pack.Changes {
		fmt.Println("change", c.ID().ClientSeq())
		for _, op := range c.Operations() {
			switch o := op.(type) {
			case *operations.Add:
				fmt.Printf("   Add parent=%s prev=%s value=%s %s\n", tk(o.ParentCreatedAt()), tk(o.PrevCreatedAt()), tk(o.Value().CreatedAt()), o.Value().Marshal())
			case *operations.Remove:
				fmt.Printf("   Remove parent=%s target=%s\n", tk(o.ParentCreatedAt()), tk(o.CreatedAt()))
			case *operations.ArraySet:
				fmt.Printf("   ArraySet parent=%s target=%s value=%s %s\n", tk(o.ParentCreatedAt()), tk(o.CreatedAt()), tk(o.Value().CreatedAt()), o.Value().Marshal())
			case *operations.Set:
				fmt.Printf("   Set parent=%s value=%s\n", tk(o.ParentCreatedAt()), tk(o.Value().CreatedAt()))
			default:
				fmt.Printf("   %T parent=%s\n", op, tk(op.ParentCreatedAt()))
			}
		}
	}
	r.deliverToPeer()
	for _, v := range res.Viol {
		fmt.Println(v.Kind, v.Detail)
	}
}
