package props

import (
	"bytes"
	"context"
	"encoding/json"
	"fmt"
	"io"
	"net/http"
	"runtime/debug"
	"strings"
	"sync"
	gotime "time"

	"google.golang.org/protobuf/proto"

	"github.com/yorkie-team/yorkie/api/converter"
	api "github.com/yorkie-team/yorkie/api/yorkie/v1"
	yjson "github.com/yorkie-team/yorkie/pkg/document/json"
	"github.com/yorkie-team/yorkie/pkg/document/presence"
	"github.com/yorkie-team/yorkie/pkg/key"

	"verif/internal/boot"
	"verif/internal/gen"
	"verif/internal/replica"
	"verif/internal/runner"
)

// The third family of C09: hostile change packs through the LIVE server.
// A hostile client that is properly activated and attached sends structurally
// mutated change packs by raw HTTP (the SDK would never build them). Oracle: every
// request is answered (an error or a success, never a dropped connection = a
// panicking handler, never a timeout = a hang); afterwards a healthy client can
// still attach to the same document, sync and read it - the stored log has not
// been poisoned - and a healthy client on another document is unaffected.

var c09Env struct {
	once sync.Once
	sw   *simWorker
	err  error
}

func c09Server(tier string, seed int64) (*simWorker, error) {
	c09Env.once.Do(func() {
		c09Env.sw, c09Env.err = newSimWorker(tier, seed, boot.Options{})
	})
	return c09Env.sw, c09Env.err
}

func (w *c09Worker) rawPushPull(env *boot.Env, apiKey, docKey string, body []byte) (status int, respBody []byte, err error) {
	ctx, cancel := context.WithTimeout(context.Background(), 10*gotime.Second)
	defer cancel()
	req, _ := http.NewRequestWithContext(ctx, "POST", fmt.Sprintf("http://%s/yorkie.v1.YorkieService/PushPullChanges", env.Addr), bytes.NewReader(body))
	req.Header.Set("Content-Type", "application/proto")
	req.Header.Set("Connect-Protocol-Version", "1")
	req.Header.Set("x-api-key", apiKey)
	req.Header.Set("x-shard-key", apiKey+"/"+docKey)
	resp, err := env.HTTP.Do(req)
	if err != nil {
		return 0, nil, err
	}
	defer resp.Body.Close()
	b, _ := io.ReadAll(resp.Body)
	return resp.StatusCode, b, nil
}

func (w *c09Worker) runRPC(res *runner.CaseResult, idx int) {
	sw, err := c09Server(w.tier, w.seed)
	if err != nil {
		res.Inconclusive = err.Error()
		return
	}
	rng := caseRng(w.seed^0xc09c, idx)
	proj, err := sw.project(0)
	if err != nil {
		res.Inconclusive = err.Error()
		return
	}
	ctx := context.Background()
	stamp := gotime.Now().UnixNano() % 1000000
	dk := fmt.Sprintf("c09rpc-%d-%d-%d", w.seed, idx, stamp)
	replay := map[string]any{"family": "rpc", "seed": w.seed, "idx": idx}
	// a healthy client that PANICS while applying what the server sends is the crash the
	// property forbids; an apply ERROR is the recorded finding F-HOSTILE-CHANGE-STORED
	guard := func(f func() error) (err error) {
		defer func() {
			if x := recover(); x != nil {
				var fr []string
				for _, l := range strings.Split(string(debug.Stack()), "\n") {
					if strings.Contains(l, "yorkie/") && !strings.HasPrefix(l, "\t") && len(fr) < 6 {
						fr = append(fr, strings.TrimSpace(l))
					}
				}
				err = fmt.Errorf("PANIC: %v at %s", x, strings.Join(fr, " <- "))
			}
		}()
		return f()
	}
	mk := func(name string, k string) (*replica.Replica, error) {
		r := replica.New(name, proj.PublicKey, fmt.Sprintf("%s-%d-%d-%d", name, w.seed, idx, stamp), sw.env.RPC(proj.PublicKey))
		if err := r.Activate(ctx); err != nil {
			return nil, err
		}
		if err := guard(func() error { return r.Attach(ctx, key.Key(k), replica.AttachOpts{}) }); err != nil {
			return nil, err
		}
		return r, nil
	}
	poisoned := func(what string, err error) {
		// the property's crash clause is about the SERVER (checked above: every request was
		// answered, and below: other documents still work). What an accepted hostile change
		// does to the clients that pull it - an apply error or a panic inside the SDK - is
		// the recorded finding
		ident := "hostile-change-stored:apply-error"
		kind := "document-poisoned"
		if strings.HasPrefix(err.Error(), "PANIC") {
			kind = "healthy-client-crashed"
			ident = "hostile-change-stored:client-panic"
		}
		res.Violate(kind, what+": "+err.Error(), ident, replay)
	}
	good, err := mk("good", dk)
	if err != nil {
		res.Inconclusive = err.Error()
		return
	}
	if err := safeUpdate(good.Doc, gen.InitEdits()); err != nil {
		res.Inconclusive = err.Error()
		return
	}
	prof := c07Profile(rng)
	for i := 0; i < 6; i++ {
		conts := gen.Scan(good.Doc.Root().Object, prof.MaxDepth)
		e := prof.Next(rng, conts, "good")
		if e.Op != "arr.set" {
			_ = safeUpdate(good.Doc, []gen.Edit{e})
		}
	}
	if err := good.Sync(ctx, false); err != nil {
		res.Inconclusive = "good client: " + err.Error()
		return
	}
	evil, err := mk("evil", dk)
	if err != nil {
		res.Inconclusive = err.Error()
		return
	}
	bystander, err := mk("bystander", dk+"-other")
	if err != nil {
		res.Inconclusive = err.Error()
		return
	}
	sent, accepted, refused := 0, 0, 0
	for k := 0; k < 12; k++ {
		// a real pack of the evil client, then mutated
		for i := 0; i < 1+rng.Intn(3); i++ {
			conts := gen.Scan(evil.Doc.Root().Object, prof.MaxDepth)
			e := prof.Next(rng, conts, "evil")
			if e.Op != "arr.set" {
				_ = safeUpdate(evil.Doc, []gen.Edit{e})
			}
		}
		pack := evil.Doc.CreateChangePack()
		pb, err := converter.ToChangePack(pack)
		if err != nil {
			continue
		}
		raw, _ := proto.Marshal(pb)
		mut := mutatePack(rng, raw)
		var mpb api.ChangePack
		if proto.Unmarshal(mut, &mpb) != nil {
			continue
		}
		// keep the envelope valid so that the request reaches the change handling
		mpb.DocumentKey = dk
		body, _ := proto.Marshal(&api.PushPullChangesRequest{ClientId: evil.ID.String(), DocumentId: evil.DocID, ChangePack: &mpb})
		status, rb, err := w.rawPushPull(sw.env, proj.PublicKey, dk, body)
		sent++
		res.AddStat("hostile_packs_sent_to_server", 1)
		if err != nil {
			kind := "handler-dropped-connection"
			if strings.Contains(err.Error(), "deadline") || strings.Contains(err.Error(), "Timeout") {
				kind = "handler-hung"
			}
			replay["pack_hex"] = fmt.Sprintf("%x", mut)
			res.Violate(kind, fmt.Sprintf("PushPullChanges with a mutated change pack (%d bytes) was not answered: %v", len(mut), err), "", replay)
			return
		}
		if status == 200 {
			accepted++
		} else {
			refused++
			var e struct {
				Code string `json:"code"`
			}
			_ = json.Unmarshal(rb, &e)
			res.AddSet("rpc_reject_codes", e.Code)
		}
		// the hostile client's local document is only a source of packs: drop what it made
		if k%3 == 2 {
			if evil, err = mk(fmt.Sprintf("evil%d", k), dk); err != nil {
				break
			}
		}
	}
	res.AddStat("hostile_packs_accepted", int64(accepted))
	res.AddStat("hostile_packs_refused", int64(refused))
	sw.env.WaitIdle()
	// the document must still be usable by healthy clients
	late, err := mk("late", dk)
	if err != nil {
		poisoned(fmt.Sprintf("after %d hostile packs (%d accepted) a healthy client cannot attach to the document any more", sent, accepted), err)
		return
	}
	_ = late.Update(func(root *yjson.Object, _ *presence.Presence) error {
		root.SetString("late", "hello")
		return nil
	})
	if err := guard(func() error { return late.Sync(ctx, false) }); err != nil {
		poisoned(fmt.Sprintf("after %d hostile packs (%d accepted) a healthy late attacher cannot sync", sent, accepted), err)
		return
	}
	if err := guard(func() error { return good.Sync(ctx, false) }); err != nil {
		poisoned(fmt.Sprintf("after %d hostile packs (%d accepted) the healthy client that was attached all along cannot sync", sent, accepted), err)
		return
	}
	_ = guard(func() error { return good.Sync(ctx, false) })
	_ = guard(func() error { return late.Sync(ctx, false) })
	if a, b := good.Doc.Marshal(), late.Doc.Marshal(); a != b && !good.Doc.HasLocalChanges() && !late.Doc.HasLocalChanges() {
		id := ""
		if accepted > 0 {
			id = "hostile-change-stored:divergence"
		}
		res.Violate("healthy-clients-diverged", fmt.Sprintf("after the hostile packs the two healthy clients show\n %s\n %s", trunc400(a), trunc400(b)), id, replay)
		return
	}
	_ = bystander.Update(func(root *yjson.Object, _ *presence.Presence) error {
		root.SetString("x", "y")
		return nil
	})
	if err := bystander.Sync(ctx, false); err != nil {
		res.Violate("server-damaged", "a client of another document cannot sync after the hostile packs: "+err.Error(), "", replay)
		return
	}
	res.Hash = fmt.Sprintf("rpc-%d-%d", w.seed, idx)
	res.Nontrivial = sent >= 5
	if idx%499 == 15 {
		b, _ := json.Marshal(map[string]any{"family": "rpc", "packs_sent": sent, "accepted": accepted, "refused": refused})
		res.Sample = b
	}
}
