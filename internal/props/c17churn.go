package props

import (
	"context"
	"fmt"
	"sync"
	gotime "time"

	"github.com/yorkie-team/yorkie/api/types"
	"github.com/yorkie-team/yorkie/api/types/events"
	"github.com/yorkie-team/yorkie/pkg/document/time"
	"github.com/yorkie-team/yorkie/server/backend/pubsub"

	"verif/internal/runner"
)

// churn family of C17: the subscription set of one document goes 1 -> 0 -> 1 over and over.
// In every round the ONLY watcher unsubscribes while the next one subscribes (two goroutines
// released together); once both calls have returned somebody publishes. The new watcher's
// Subscribe returned before the publish and its Unsubscribe has not started: it must receive
// the event (or a closed channel) and be listed by ClientIDs. The other families always keep
// one long-lived watcher, so the document's set never empties while somebody joins.
func (w *c17Worker) runChurn(res *runner.CaseResult, idx int) {
	rng := caseRng(w.seed^0xc17c, idx)
	replay := map[string]any{"family": "churn", "seed": w.seed, "idx": idx}
	ps := pubsub.New()
	ctx := context.Background()
	docKey := types.DocRefKey{ProjectID: "000000000000000000000001", DocID: types.ID(fmt.Sprintf("%024x", 0xc0000+idx))}
	actor := func(i int) time.ActorID {
		a, _ := time.ActorIDFromHex(fmt.Sprintf("%024x", 0xb000+i))
		return a
	}
	publisher := actor(9999)
	rounds := 8000
	if w.tier == "thorough" {
		rounds = 30000
	}
	cur, _, err := ps.Subscribe(ctx, actor(0), docKey, 0)
	if err != nil {
		res.Inconclusive = err.Error()
		return
	}
	overtakes := 0
	for r := 1; r <= rounds; r++ {
		next := actor(r % 500)
		var nsub *pubsub.DocSubscription
		var serr error
		start := make(chan struct{})
		var wg sync.WaitGroup
		wg.Add(2)
		spin := rng.Intn(200)
		first := rng.Intn(2)
		go func() {
			defer wg.Done()
			<-start
			if first == 0 {
				for i := 0; i < spin; i++ {
					_ = i
				}
			}
			ps.Unsubscribe(ctx, docKey, cur)
		}()
		go func() {
			defer wg.Done()
			<-start
			if first == 1 {
				for i := 0; i < spin; i++ {
					_ = i
				}
			}
			nsub, _, serr = ps.Subscribe(ctx, next, docKey, 0)
		}()
		close(start)
		wg.Wait()
		if serr != nil {
			res.Violate("call-failed", fmt.Sprintf("round %d: Subscribe: %v", r, serr), "", replay)
			return
		}
		// the new watcher's Subscribe has returned and its Unsubscribe has not started: the
		// document's subscription set must hold exactly it
		ids := ps.ClientIDs(docKey)
		if len(ids) != 1 || ids[0].Compare(next) != 0 {
			res.Violate("subscription-lost", fmt.Sprintf("round %d: the only watcher unsubscribed while the next one subscribed; Subscribe returned, but ClientIDs lists %d subscription(s) and not exactly the new watcher: it will never be notified", r, len(ids)), "", replay)
			return
		}
		res.AddStat("churn_rounds_judged", 1)
		if r%400 == 0 || r == rounds {
			// delivery itself (one batch window per probe)
			ps.Publish(ctx, publisher, events.DocEvent{Type: events.DocChanged, Key: docKey, Actor: publisher})
			got := false
			select {
			case _, ok := <-nsub.Events():
				_ = ok
				got = true // an event, or a closed channel
			case <-gotime.After(5 * gotime.Second):
			}
			res.AddStat("churn_deliveries_judged", 1)
			if !got {
				res.Violate("notification-missing", fmt.Sprintf("round %d: after %d rounds in which the only watcher unsubscribed while the next one subscribed, the current watcher received nothing within 5 s of a publish and its channel is open", r, r), "", replay)
				return
			}
		}
		cur = nsub
		overtakes++
	}
	ps.Unsubscribe(ctx, docKey, cur)
	if n := len(ps.ClientIDs(docKey)); n != 0 {
		res.Violate("subscription-leaked", fmt.Sprintf("every watcher has unsubscribed, ClientIDs lists %d", n), "", replay)
		return
	}
	res.Hash = fmt.Sprintf("churn-%d-%d", w.seed, idx)
	res.Nontrivial = true
}
