package props

import (
	"context"
	"encoding/json"
	"fmt"
	"sort"
	"strings"
	gotime "time"

	"github.com/yorkie-team/yorkie/client"
	"github.com/yorkie-team/yorkie/pkg/document"
	"github.com/yorkie-team/yorkie/pkg/document/crdt"
	yjson "github.com/yorkie-team/yorkie/pkg/document/json"
	"github.com/yorkie-team/yorkie/pkg/document/presence"
	"github.com/yorkie-team/yorkie/pkg/key"

	"verif/internal/runner"
)

// The sdk family of C05 drives the REAL client.Client (client/client.go is one of the
// property's anchors): its Sync keeps the local changes after a failed request and sends
// them again with the next call. Every edit appends a UNIQUE string to one array, so a
// duplicate or a lost edit is visible in the content itself: exactly-once = every id the
// clients produced is in everybody's array exactly once.

type c05sdkStep struct {
	T string `json:"t"` // edit sync
	C int    `json:"c"`
	V string `json:"v,omitempty"`
}

type c05sdkReplay struct {
	Family  string       `json:"family"`
	Seed    int64        `json:"seed"`
	Idx     int          `json:"idx"`
	Snap    int64        `json:"snap"`
	Clients int          `json:"clients"`
	Steps   []c05sdkStep `json:"steps"`
	// the fault: the Call-th storage call of the handler of the Req-th request (requests are
	// numbered in the order the driver issues them), failing before / after the call
	Req  int    `json:"req"`
	Call int    `json:"call"`
	Mode string `json:"mode"`
}

func (s c05sdkStep) String() string {
	if s.T == "edit" {
		return fmt.Sprintf("c%d.arr.add(%q)", s.C, s.V)
	}
	return fmt.Sprintf("c%d.sync", s.C)
}

func c05sdkSchedule(seed int64, idx int) c05sdkReplay {
	rng := caseRng(seed^0xc055d, idx)
	rp := c05sdkReplay{Family: "sdk", Seed: seed, Idx: idx, Snap: []int64{0, 0, 3}[rng.Intn(3)], Clients: 2 + rng.Intn(2)}
	n := 10 + rng.Intn(14)
	uid := 0
	for s := 0; s < n; s++ {
		c := rng.Intn(rp.Clients)
		if rng.Intn(100) < 55 {
			for k := 0; k <= rng.Intn(2); k++ {
				uid++
				rp.Steps = append(rp.Steps, c05sdkStep{T: "edit", C: c, V: fmt.Sprintf("c%d-%d", c, uid)})
			}
		} else {
			rp.Steps = append(rp.Steps, c05sdkStep{T: "sync", C: c})
		}
	}
	return rp
}

// runSDKOnce executes the schedule with the given fault armed; returns what fired ("" = the
// fault point was not reached) and the problems seen.
func (w *c05Worker) runSDKOnce(rp c05sdkReplay, tag string) (fired string, problems []string, requests int, inconclusive string) {
	proj, err := w.project(rp.Snap)
	if err != nil {
		return "", nil, 0, err.Error()
	}
	ctx, cancel := context.WithTimeout(context.Background(), 2*gotime.Minute)
	defer cancel()
	docKey := key.Key(fmt.Sprintf("c05sdk-%d-%d-%s-%d", rp.Seed, rp.Idx, tag, gotime.Now().UnixNano()%1000000000))
	h := w.hook
	h.mu.Lock()
	h.armReq, h.fired = -1, ""
	h.mu.Unlock()
	req := 0
	begin := func() {
		req++
		h.begin(req)
	}
	type cl struct {
		c *client.Client
		d *document.Document
	}
	cs := make([]*cl, rp.Clients)
	for i := range cs {
		c, err := client.Dial(w.env.Addr, client.WithAPIKey(proj.PublicKey))
		if err != nil {
			return "", nil, 0, "dial: " + err.Error()
		}
		defer func() { _ = c.Close() }()
		begin()
		if err := c.Activate(ctx); err != nil {
			return "", nil, 0, "activate: " + err.Error()
		}
		d := document.New(docKey)
		begin()
		if err := c.Attach(ctx, d); err != nil {
			return "", nil, 0, "attach: " + err.Error()
		}
		if i == 0 {
			_ = d.Update(func(root *yjson.Object, _ *presence.Presence) error {
				root.SetNewArray("arr")
				return nil
			})
			begin()
			if err := c.Sync(ctx); err != nil {
				return "", nil, 0, "first sync: " + err.Error()
			}
		}
		cs[i] = &cl{c, d}
	}
	for _, x := range cs[1:] {
		begin()
		if err := x.c.Sync(ctx); err != nil {
			return "", nil, 0, "sync: " + err.Error()
		}
	}
	base := req
	// from here on requests are numbered relative to base; the fault is armed on one of them
	h.mu.Lock()
	h.armReq, h.armIdx, h.armMode = base+rp.Req, rp.Call, rp.Mode
	h.mu.Unlock()
	produced := map[string]bool{}
	syncOf := func(x *cl, what string) {
		for try := 0; try < 4; try++ {
			begin()
			err := x.c.Sync(ctx)
			if err == nil {
				return
			}
			if !strings.Contains(err.Error(), "injected") {
				problems = append(problems, fmt.Sprintf("retry-fails: %s (attempt %d) returned %v", what, try+1, err))
				return
			}
			// what an application does: call Sync again
		}
		problems = append(problems, "retry-fails: "+what+" still fails at the fourth attempt")
	}
	for _, st := range rp.Steps {
		x := cs[st.C]
		switch st.T {
		case "edit":
			v := st.V
			if err := x.d.Update(func(root *yjson.Object, _ *presence.Presence) error {
				root.GetArray("arr").AddString(v)
				return nil
			}); err != nil {
				problems = append(problems, "update-failed: "+err.Error())
				return
			}
			produced[v] = true
		case "sync":
			syncOf(x, st.String())
		}
		if len(problems) > 0 {
			break
		}
	}
	h.mu.Lock()
	fired = h.fired
	h.armReq = -1
	h.mu.Unlock()
	if len(problems) == 0 {
		for round := 0; round < 3; round++ {
			for i, x := range cs {
				syncOf(x, fmt.Sprintf("closing sync of c%d", i))
			}
		}
	}
	w.env.WaitIdle()
	requests = req - base
	if len(problems) > 0 {
		return fired, problems, requests, ""
	}
	// exactly once, everywhere
	for i, x := range cs {
		count := map[string]int{}
		arr := x.d.Root().GetArray("arr")
		if arr == nil {
			problems = append(problems, fmt.Sprintf("lost-change: client c%d has no array", i))
			break
		}
		for k := 0; k < arr.Len(); k++ {
			if p, ok := arr.Get(k).(*crdt.Primitive); ok {
				count[fmt.Sprint(p.Value())]++
			}
		}
		var dup, lost []string
		for v := range produced {
			switch {
			case count[v] == 0:
				lost = append(lost, v)
			case count[v] > 1:
				dup = append(dup, fmt.Sprintf("%s x%d", v, count[v]))
			}
		}
		sort.Strings(dup)
		sort.Strings(lost)
		if len(dup) > 0 {
			problems = append(problems, fmt.Sprintf("duplicate-change: client c%d holds %v more than once (array %s)", i, dup, x.d.Marshal()))
			break
		}
		if len(lost) > 0 {
			problems = append(problems, fmt.Sprintf("lost-change: client c%d misses %v (array %s)", i, lost, x.d.Marshal()))
			break
		}
	}
	if len(problems) == 0 {
		for i, x := range cs[1:] {
			if a, b := cs[0].d.Marshal(), x.d.Marshal(); a != b {
				problems = append(problems, fmt.Sprintf("divergence: c0 %s vs c%d %s", a, i+1, b))
				break
			}
		}
	}
	return fired, problems, requests, ""
}

func (w *c05Worker) runSDK(res *runner.CaseResult, idx int, replay *c05sdkReplay) {
	if replay != nil {
		fired, problems, _, inc := w.runSDKOnce(*replay, "r")
		if inc != "" {
			res.Inconclusive = inc
			return
		}
		w.judgeSDK(res, *replay, fired, problems)
		return
	}
	rp := c05sdkSchedule(w.seed, idx)
	// fault-free run: must be clean, and tells how many requests there are
	_, problems, requests, inc := w.runSDKOnce(c05sdkReplay{Family: rp.Family, Seed: rp.Seed, Idx: rp.Idx, Snap: rp.Snap, Clients: rp.Clients, Steps: rp.Steps, Req: -1000}, "d")
	if inc != "" {
		res.Inconclusive = inc
		return
	}
	if len(problems) > 0 {
		res.Inconclusive = "fault-free sdk run is not clean: " + problems[0]
		return
	}
	res.Hash = runner.HashOf(rp.Steps)
	rng := caseRng(w.seed^0xc055e, idx)
	runs := 16
	if w.tier == "thorough" {
		runs = 24
	}
	for k := 0; k < runs; k++ {
		f := rp
		f.Req = 1 + rng.Intn(requests)
		f.Call = rng.Intn(11)
		f.Mode = []string{"before", "after"}[rng.Intn(2)]
		fired, problems, _, inc := w.runSDKOnce(f, fmt.Sprint(k))
		res.AddStat("sdk_fault_runs", 1)
		if inc != "" {
			continue
		}
		w.judgeSDK(res, f, fired, problems)
	}
	res.Nontrivial = res.Stats["sdk_faults_fired"] > 0
	if idx%11 == 0 {
		var prog []string
		for _, s := range rp.Steps {
			prog = append(prog, s.String())
		}
		b, _ := json.Marshal(map[string]any{"family": "sdk", "clients": rp.Clients, "schedule": prog, "requests": requests})
		res.Sample = b
	}
}

func (w *c05Worker) judgeSDK(res *runner.CaseResult, f c05sdkReplay, fired string, problems []string) {
	if fired == "" {
		res.AddStat("sdk_faults_not_reached", 1)
		return
	}
	res.AddStat("sdk_faults_fired", 1)
	res.AddStat("faults_fired", 1)
	res.AddSet("sdk_fault_points", f.Mode+"@"+strings.TrimPrefix(fired, "h:"))
	for _, p := range problems {
		if strings.HasPrefix(p, "duplicate-change") {
			problems = []string{p}
			break
		}
	}
	for _, p := range problems {
		kind := p
		if i := strings.Index(p, ":"); i > 0 {
			kind = p[:i]
		}
		// the same identification as the replica-driver family: a stored duplicate after a
		// fault inside the checkpoint window of a sync is recorded finding F-CHECKPOINT-WINDOW
		ident := fmt.Sprintf("%s@%s|%s|%s", f.Mode, fired, "sync", kind)
		res.Violate(kind, fmt.Sprintf("sdk family (real client.Client): fault %s at %s (request %d, storage call %d): %s", f.Mode, fired, f.Req, f.Call, p), ident, f)
	}
}
