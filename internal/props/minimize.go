package props

import (
	"encoding/json"
	"fmt"
	"os"

	"verif/internal/gen"
	"verif/internal/runner"
	"verif/internal/sim"
)

// MinimizeHistory shrinks a failing history by delta debugging over its steps
// (and then over the edits inside multi-edit steps). fails(h) must re-run h in
// a fresh world and say whether the same kind of failure shows.
func MinimizeHistory(h sim.History, fails func(sim.History) bool) sim.History {
	cur := h
	n := 2
	for len(cur.Steps) >= 2 {
		chunk := (len(cur.Steps) + n - 1) / n
		reduced := false
		for start := 0; start < len(cur.Steps); start += chunk {
			end := start + chunk
			if end > len(cur.Steps) {
				end = len(cur.Steps)
			}
			cand := sim.History{Cfg: cur.Cfg}
			cand.Steps = append(cand.Steps, cur.Steps[:start]...)
			cand.Steps = append(cand.Steps, cur.Steps[end:]...)
			if len(cand.Steps) == 0 {
				continue
			}
			if fails(cand) {
				cur = cand
				if n > 2 {
					n--
				}
				reduced = true
				break
			}
		}
		if !reduced {
			if chunk == 1 {
				break
			}
			n *= 2
			if n > len(cur.Steps) {
				n = len(cur.Steps)
			}
		}
	}
	// shrink multi-edit steps
	for i := range cur.Steps {
		for len(cur.Steps[i].E) > 1 {
			shr := false
			for k := range cur.Steps[i].E {
				cand := cloneHistory(cur)
				cand.Steps[i].E = append(append([]gen.Edit{}, cur.Steps[i].E[:k]...), cur.Steps[i].E[k+1:]...)
				if fails(cand) {
					cur = cand
					shr = true
					break
				}
			}
			if !shr {
				break
			}
		}
	}
	return cur
}

func cloneHistory(h sim.History) sim.History {
	b, _ := json.Marshal(h)
	var c sim.History
	_ = json.Unmarshal(b, &c)
	return c
}

// Minimizer is implemented by workers whose replays are sim histories.
type Minimizer interface {
	Replay(data json.RawMessage) runner.CaseResult
}

// MinimizeFile minimises the replay file in place (writes <file>.min.json).
func MinimizeFile(p runner.Prop, path string) int {
	b, err := os.ReadFile(path)
	if err != nil {
		fmt.Fprintln(os.Stderr, err)
		return 2
	}
	var doc map[string]json.RawMessage
	if err := json.Unmarshal(b, &doc); err != nil {
		fmt.Fprintln(os.Stderr, err)
		return 2
	}
	var h sim.History
	// the replay is either a History or an object wrapping one under "h"
	var wrapper map[string]json.RawMessage
	wrapped := false
	if err := json.Unmarshal(doc["replay"], &wrapper); err == nil && wrapper["h"] == nil && wrapper["steps"] != nil && wrapper["family"] != nil {
		return minimizeRawSteps(p, path, doc, wrapper)
	}
	if err := json.Unmarshal(doc["replay"], &wrapper); err == nil && wrapper["h"] != nil {
		wrapped = true
		if err := json.Unmarshal(wrapper["h"], &h); err != nil {
			fmt.Fprintln(os.Stderr, err)
			return 2
		}
	} else if err := json.Unmarshal(doc["replay"], &h); err != nil {
		fmt.Fprintln(os.Stderr, err)
		return 2
	}
	encode := func(c sim.History) json.RawMessage {
		raw, _ := json.Marshal(c)
		if wrapped {
			wrapper["h"] = raw
			raw, _ = json.Marshal(wrapper)
		}
		return raw
	}
	var kind string
	_ = json.Unmarshal(doc["kind"], &kind)
	var seed int64
	_ = json.Unmarshal(doc["seed"], &seed)
	wk, err := p.NewWorker("quick", seed)
	if err != nil {
		fmt.Fprintln(os.Stderr, err)
		return 2
	}
	defer wk.Close()
	runs := 0
	fails := func(c sim.History) bool {
		raw := encode(c)
		for try := 0; try < 2; try++ {
			runs++
			res := wk.Replay(raw)
			for _, v := range res.Viol {
				if v.Kind == kind {
					return true
				}
			}
		}
		return false
	}
	if !fails(h) {
		fmt.Println("original does not reproduce")
		return 1
	}
	m := MinimizeHistory(h, fails)
	raw := encode(m)
	doc["replay"] = raw
	out, _ := json.MarshalIndent(doc, "", " ")
	outPath := path + ".min.json"
	_ = os.WriteFile(outPath, out, 0o644)
	fmt.Printf("minimised %d -> %d steps in %d runs: %s\n", len(h.Steps), len(m.Steps), runs, outPath)
	for i, s := range m.Steps {
		eb, _ := json.Marshal(s.E)
		if len(s.E) == 0 {
			eb = nil
		}
		fmt.Printf("  %2d %s %s\n", i, s.String(), "")
		_ = eb
	}
	res := wk.Replay(raw)
	for _, v := range res.Viol {
		fmt.Printf("  => %s: %s\n", v.Kind, v.Detail)
	}
	return 0
}

// minimizeRawSteps is delta debugging over replays that carry their own list
// of steps ({"family":..,"steps":[...]}: C09, C14, C15 in-process families).
func minimizeRawSteps(p runner.Prop, path string, doc, wrapper map[string]json.RawMessage) int {
	var steps []json.RawMessage
	if err := json.Unmarshal(wrapper["steps"], &steps); err != nil {
		fmt.Fprintln(os.Stderr, err)
		return 2
	}
	var kind, ident string
	_ = json.Unmarshal(doc["kind"], &kind)
	_ = json.Unmarshal(doc["ident"], &ident)
	var seed int64
	_ = json.Unmarshal(doc["seed"], &seed)
	wk, err := p.NewWorker("quick", seed)
	if err != nil {
		fmt.Fprintln(os.Stderr, err)
		return 2
	}
	defer wk.Close()
	encode := func(st []json.RawMessage) json.RawMessage {
		w := map[string]json.RawMessage{}
		for k, v := range wrapper {
			w[k] = v
		}
		raw, _ := json.Marshal(st)
		w["steps"] = raw
		out, _ := json.Marshal(w)
		return out
	}
	runs := 0
	fails := func(st []json.RawMessage) bool {
		runs++
		res := wk.Replay(encode(st))
		for _, v := range res.Viol {
			// same kind AND same attribution: a shrunk history that is identified as a
			// recorded finding is a different failure
			if v.Kind == kind && v.Ident == ident {
				return true
			}
		}
		return false
	}
	if !fails(steps) {
		fmt.Println("original does not reproduce")
		return 1
	}
	cur := steps
	n := 2
	for len(cur) >= 2 {
		chunk := (len(cur) + n - 1) / n
		reduced := false
		for start := 0; start < len(cur); start += chunk {
			end := start + chunk
			if end > len(cur) {
				end = len(cur)
			}
			cand := append(append([]json.RawMessage{}, cur[:start]...), cur[end:]...)
			if len(cand) > 0 && fails(cand) {
				cur = cand
				if n > 2 {
					n--
				}
				reduced = true
				break
			}
		}
		if !reduced {
			if chunk == 1 {
				break
			}
			n *= 2
			if n > len(cur) {
				n = len(cur)
			}
		}
	}
	// shrink multi-edit steps (field "e" holding an array)
	for i := range cur {
		for {
			var st map[string]json.RawMessage
			if json.Unmarshal(cur[i], &st) != nil {
				break
			}
			var es []json.RawMessage
			if json.Unmarshal(st["e"], &es) != nil || len(es) < 2 {
				break
			}
			shr := false
			for k := range es {
				es2 := append(append([]json.RawMessage{}, es[:k]...), es[k+1:]...)
				raw, _ := json.Marshal(es2)
				st["e"] = raw
				cand := append([]json.RawMessage{}, cur...)
				cand[i], _ = json.Marshal(st)
				if fails(cand) {
					cur = cand
					shr = true
					break
				}
			}
			if !shr {
				break
			}
		}
	}
	doc["replay"] = encode(cur)
	out, _ := json.MarshalIndent(doc, "", " ")
	outPath := path + ".min.json"
	_ = os.WriteFile(outPath, out, 0o644)
	fmt.Printf("minimised %d -> %d steps in %d runs: %s\n", len(steps), len(cur), runs, outPath)
	for i, st := range cur {
		fmt.Printf("  %2d %s\n", i, string(st))
	}
	res := wk.Replay(encode(cur))
	for _, v := range res.Viol {
		fmt.Printf("  => %s: %s\n", v.Kind, v.Detail)
	}
	return 0
}
