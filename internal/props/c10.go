package props

import (
	"context"
	"encoding/json"
	"fmt"
	"strings"

	"github.com/yorkie-team/yorkie/pkg/document"
	yjson "github.com/yorkie-team/yorkie/pkg/document/json"
	"github.com/yorkie-team/yorkie/pkg/document/presence"
	"github.com/yorkie-team/yorkie/server/documents"

	"verif/internal/boot"
	"verif/internal/gen"
	"verif/internal/model"
	"verif/internal/replica"
	"verif/internal/runner"
	"verif/internal/sim"
)

type c10 struct{}

func init() { register(c10{}) }

func (c10) ID() string    { return "C10" }
func (c10) Level() string { return "exploration" }
func (c10) Rule() string {
	return "case = a generated history (C01 alphabet, GC on, snapshot threshold 0 or 5) brought to quiescence, followed by a " +
		"compaction scenario through the real path documents.CompactDocument -> Cluster RPC -> packs.Compact: (1) normal compaction " +
		"while clients are attached must answer compacted=false and leave log, epoch and server sequence untouched; (2) a forced " +
		"compaction (or a normal one after everybody detached) must succeed; then every stale client flavour is exercised - " +
		"sync without unsent edits, sync with unsent edits, push-only sync with unsent edits, detach, remove - plus a fresh attach, " +
		"new edits by the fresh client, a second fresh attach and a second compaction. Oracle: canonical content (text as merged " +
		"styled runs, trees as XML) of a fresh attach == content before compaction; a stale sync fails with an epoch-mismatch " +
		"error and the log gains no row; stale detach succeeds; epoch grows by exactly one per successful compaction; " +
		"packs.Compact never errors on a reachable document. Non-trivial = >=2 editors and at least one successful compaction. Stale changes carry operations, operations+presence or presence only; in a third of the cases the second generation outgrows the first."
}
func (c10) Assumptions() []string {
	return []string{"memdb; single node: the Cluster RPC loops back into the same process", "content compared in canonical form, not chunk by chunk"}
}
func (c10) NumCases(tier string, _ int64) int {
	if tier == "thorough" {
		return 100000
	}
	return 3000
}
func (c10) Exhaustive(string) bool { return false }
func (c10) Floors(string) []runner.Floor {
	return []runner.Floor{{Stat: "compactions_succeeded", Min: 500}, {Stat: "stale_requests_checked", Min: 1000}, {Stat: "refused_compactions_checked", Min: 200}, {Stat: "tiny_presenceless_compactions", Min: 100}}
}

type c10Worker struct{ *simWorker }

func (c10) NewWorker(tier string, seed int64) (runner.Worker, error) {
	sw, err := newSimWorker(tier, seed, boot.Options{})
	if err != nil {
		return nil, err
	}
	return &c10Worker{sw}, nil
}

func canonDoc(d *document.Document) string { return model.Canon(model.FromDoc(d.RootObject())) }

type docMeta struct {
	epoch, serverSeq int64
	rows             int
}

func (w *c10Worker) meta(world *sim.World) (docMeta, error) {
	di, err := world.DocInfo()
	if err != nil {
		return docMeta{}, err
	}
	log, err := world.ServerLog()
	if err != nil {
		return docMeta{}, err
	}
	return docMeta{epoch: di.Epoch, serverSeq: di.ServerSeq, rows: len(log)}, nil
}

func (w *c10Worker) compact(world *sim.World, force bool) (bool, error) {
	di, err := world.DocInfo()
	if err != nil {
		return false, err
	}
	ok, err := documents.CompactDocument(context.Background(), w.env.BE, world.Project, di, force)
	w.env.WaitIdle()
	return ok, err
}

func isEpochMismatch(err error) bool {
	return err != nil && strings.Contains(strings.ToLower(err.Error()), "epoch")
}

func (w *c10Worker) run(res *runner.CaseResult, idx int, seed int64, withDedup bool, pinned *sim.History) {
	rng := caseRng(seed^0xc10, idx)
	g := sim.GenCfg{
		N: 2 + rng.Intn(2), MaxReps: 4, Steps: 10 + rng.Intn(25), Profile: gen.DefaultProfile(),
		SplitSyncPct: 5, PushOnlyPct: 5, DetachPct: 2, QuiescePct: 3, MultiEditPct: 10, EditPct: 60,
	}
	var vet Vetoed
	g.Guard = makeGuard(Guards{ArrSetMoved: true, InsertBeforeTombstone: true}, &vet)
	// fence of recorded finding F-DEDUP-HLL-OPS: no dedup counters in compacted documents
	g.Profile.NoDedup = !withDedup
	cfg := sim.WorldCfg{Snap: []int64{0, 5}[rng.Intn(2)]}
	if pinned != nil {
		cfg = pinned.Cfg
	}
	proj, err := w.project(cfg.Snap)
	if err != nil {
		res.Inconclusive = err.Error()
		return
	}
	world := sim.NewWorld(w.env, proj, cfg, fmt.Sprintf("c10-%d", idx))
	world.OnQuiesce = func(*sim.World, []*replica.Replica) {}
	var h sim.History
	if pinned != nil {
		// pinned witnesses and replays run the recorded history, never a regenerated one
		h = *pinned
		world.RunHistory(h)
	} else {
		h = world.RunGenerated(caseRng(seed, idx), g)
	}
	res.Hash = runner.HashOf(h.Steps)
	editors, applied := historyStats(res, world, h)
	if len(world.Fail) > 0 {
		res.AddStat("history_failed_not_judged_here", 1)
		return
	}
	att := world.Attached()
	if len(att) < 2 {
		return
	}
	replay := map[string]any{"seed": seed, "idx": idx, "dedup": withDedup, "h": h}
	viol := func(kind, detail string) { res.Violate(kind, detail, "", replay) }
	before := canonDoc(att[0].Doc)
	for _, r := range att[1:] {
		if canonDoc(r.Doc) != before {
			res.AddStat("history_failed_not_judged_here", 1)
			return
		}
	}
	ctx := context.Background()
	m0, err := w.meta(world)
	if err != nil {
		res.Inconclusive = err.Error()
		return
	}
	// (1) normal compaction while attached: refused, nothing changes
	ok, err := w.compact(world, false)
	if err != nil {
		viol("compaction-error", fmt.Sprintf("normal compaction while attached returned an error instead of compacted=false: %v", err))
		return
	}
	m1, _ := w.meta(world)
	res.AddStat("refused_compactions_checked", 1)
	if ok || m1 != m0 {
		viol("compaction-not-refused", fmt.Sprintf("normal compaction with %d attached clients: compacted=%v, meta before %+v after %+v", len(att), ok, m0, m1))
		return
	}
	// (2) compaction that must succeed
	flavour := rng.Intn(3) // 0 forced while attached, 1 all detached + normal, 2 forced, with unsent edits on stale clients
	stale := att
	if flavour == 1 {
		for _, r := range att {
			if err := r.Detach(ctx); err != nil {
				viol("detach-failed", err.Error())
				return
			}
		}
		w.env.WaitIdle()
		stale = nil
		// the detach changes (presence clear) are in the log now
		m1, _ = w.meta(world)
	}
	unsent := map[string]bool{}
	if flavour == 2 {
		for i, r := range stale {
			if i%2 == 0 {
				withPres := i%4 == 0
				_ = r.Update(func(root *yjson.Object, p *presence.Presence) error {
					root.SetString("stale-"+r.Name, "unsent")
					if withPres {
						// an edit that also moves the cursor: one change with operations AND presence
						p.Set("cur", "stale")
					}
					return nil
				})
				unsent[r.Name] = true
			}
		}
	}
	ok, err = w.compact(world, flavour != 1)
	if err != nil {
		viol("compaction-error", fmt.Sprintf("packs.Compact failed on a reachable document (flavour %d): %v\ncontent: %s", flavour, err, trunc400(before)))
		return
	}
	if !ok {
		viol("compaction-refused", fmt.Sprintf("compaction (flavour %d, force=%v) answered compacted=false", flavour, flavour != 1))
		return
	}
	res.AddStat("compactions_succeeded", 1)
	if pinned != nil && len(pinned.Steps) > 0 && pinned.Steps[0].NoPres {
		res.AddStat("tiny_presenceless_compactions", 1)
		res.AddSet("tiny_presenceless_log_lengths", fmt.Sprint(m1.rows))
	}
	res.AddSet("flavours", fmt.Sprint(flavour))
	m2, _ := w.meta(world)
	if m2.epoch != m1.epoch+1 {
		viol("epoch-not-bumped", fmt.Sprintf("epoch before %d, after a successful compaction %d", m1.epoch, m2.epoch))
		return
	}
	// (3) stale clients
	for i, r := range stale {
		pre, _ := w.meta(world)
		kind := []string{"sync", "pushonly", "detach", "remove"}[(i+idx)%4]
		if kind == "pushonly" || (kind == "sync" && i%2 == 1) {
			flav := (i + idx/4) % 3 // operations only / operations and presence / presence only
			_ = r.Update(func(root *yjson.Object, p *presence.Presence) error {
				if flav != 2 {
					root.SetString("stale-"+r.Name, "unsent")
				}
				if flav != 0 {
					p.Set("cur", "stale")
				}
				return nil
			})
			res.AddSet("stale_unsent_change_kinds", []string{"operations", "operations+presence", "presence"}[flav])
			unsent[r.Name] = true
		}
		var e error
		switch kind {
		case "sync":
			e = r.Sync(ctx, false)
		case "pushonly":
			e = r.Sync(ctx, true)
		case "detach":
			e = r.Detach(ctx)
		case "remove":
			e = nil // exercised below on a stale client only when it is the last one
			kind = "detach"
			e = r.Detach(ctx)
		}
		w.env.WaitIdle()
		post, _ := w.meta(world)
		res.AddStat("stale_requests_checked", 1)
		res.AddSet("stale_kinds", kind)
		switch kind {
		case "sync", "pushonly":
			if e == nil {
				viol("stale-sync-accepted", fmt.Sprintf("%s of stale client %s (unsent edits: %v) succeeded after the compaction instead of failing with an epoch mismatch", kind, r.Name, unsent[r.Name]))
				return
			}
			if !isEpochMismatch(e) {
				viol("stale-sync-wrong-error", fmt.Sprintf("%s of stale client %s failed with %v, expected the epoch-mismatch error", kind, r.Name, e))
				return
			}
		case "detach":
			if e != nil {
				viol("stale-detach-refused", fmt.Sprintf("detach of stale client %s failed: %v", r.Name, e))
				return
			}
		}
		if post.rows != pre.rows || post.serverSeq != pre.serverSeq {
			viol("stale-changes-stored", fmt.Sprintf("%s of stale client %s changed the log: rows %d -> %d, serverSeq %d -> %d", kind, r.Name, pre.rows, post.rows, pre.serverSeq, post.serverSeq))
			return
		}
	}
	// (4) fresh attach
	nrep := len(world.Reps)
	world.Exec(sim.Step{T: "attach", R: nrep})
	if len(world.Fail) > 0 {
		viol("fresh-attach-failed", world.Fail[0].Detail)
		return
	}
	f1 := world.Reps[nrep]
	if got := canonDoc(f1.Doc); got != before {
		viol("compaction-changed-content", fmt.Sprintf("fresh attach after compaction:\n got  %s\n want %s", got, before))
		return
	}
	// (5) new generation grows, second fresh attach, second compaction
	grow := 3 + rng.Intn(6)
	if rng.Intn(3) == 0 {
		// the new generation outgrows the old one: its server sequence passes the old head
		// before anything rebuilds the document (whatever still remembers the old
		// generation by server sequence alone is then asked about a sequence it knows)
		grow = int(m1.serverSeq) + 1 + rng.Intn(4)
		if grow > 80 {
			grow = 80
		}
		res.AddStat("second_generation_outgrows_the_first", 1)
	}
	for k := 0; k < grow; k++ {
		conts := gen.Scan(f1.Doc.Root().Object, 3)
		e := g.Profile.Next(rng, conts, "fresh")
		if !g.Guard(world, nrep, &e) {
			continue
		}
		world.Exec(sim.Step{T: "edit", R: nrep, E: []gen.Edit{e}})
		if rng.Intn(2) == 0 || grow > 9 {
			world.Exec(sim.Step{T: "sync", R: nrep})
		}
	}
	world.Exec(sim.Step{T: "sync", R: nrep})
	world.Exec(sim.Step{T: "attach", R: nrep + 1})
	world.Exec(sim.Step{T: "sync", R: nrep})
	if len(world.Fail) > 0 {
		viol("post-compaction-sync-failed", world.Fail[0].Detail)
		return
	}
	f2 := world.Reps[nrep+1]
	after2 := canonDoc(f1.Doc)
	if got := canonDoc(f2.Doc); got != after2 {
		viol("post-compaction-divergence", fmt.Sprintf("second fresh attach:\n got  %s\n want %s", got, after2))
		return
	}
	ok, err = w.compact(world, true)
	if err != nil || !ok {
		viol("compaction-error", fmt.Sprintf("second (forced) compaction: compacted=%v err=%v", ok, err))
		return
	}
	res.AddStat("compactions_succeeded", 1)
	m3, _ := w.meta(world)
	if m3.epoch != m2.epoch+1 {
		viol("epoch-not-bumped", fmt.Sprintf("epoch before %d, after the second compaction %d", m2.epoch, m3.epoch))
		return
	}
	world.Exec(sim.Step{T: "attach", R: nrep + 2})
	if len(world.Fail) > 0 {
		viol("fresh-attach-failed", world.Fail[0].Detail)
		return
	}
	if got := canonDoc(world.Reps[nrep+2].Doc); got != after2 {
		viol("compaction-changed-content", fmt.Sprintf("fresh attach after the second compaction:\n got  %s\n want %s", got, after2))
		return
	}
	res.Nontrivial = editors >= 2 && applied >= 4
	if idx%97 == 0 {
		res.Sample = sampleOf(h, map[string]any{"flavour": flavour, "content": trunc400(before), "epochs": []int64{m0.epoch, m2.epoch, m3.epoch}})
	}
}

func (w *c10Worker) Run(idx int) runner.CaseResult {
	res := runner.CaseResult{Case: fmt.Sprintf("c10-%d", idx)}
	if idx%10 == 7 {
		// tiny presenceless family: documents created with disable_presence, whose log holds
		// nothing but 1..3 content changes (an attach stores no change of its own there), so
		// that a compaction rewrites a log of the very length it produces
		rng := caseRng(w.seed^0xc10e, idx)
		h := sim.History{Cfg: sim.WorldCfg{Snap: []int64{0, 5}[rng.Intn(2)]}}
		h.Steps = append(h.Steps, sim.Step{T: "attach", R: 0, NoPres: true}, sim.Step{T: "attach", R: 1, NoPres: true})
		if idx%20 == 7 {
			h.Steps = append(h.Steps, sim.Step{T: "attach", R: 2, NoPres: true})
		}
		h.Steps = append(h.Steps, sim.Step{T: "edit", R: 0, E: gen.InitEdits()}, sim.Step{T: "sync", R: 0})
		for k := rng.Intn(3); k > 0; k-- {
			r := rng.Intn(2)
			h.Steps = append(h.Steps, sim.Step{T: "sync", R: r},
				sim.Step{T: "edit", R: r, E: []gen.Edit{{Op: "obj.set", K: fmt.Sprintf("k%d", k), V: &gen.Val{T: "str", S: "v"}}}},
				sim.Step{T: "sync", R: r})
		}
		h.Steps = append(h.Steps, sim.Step{T: "quiesce", R: 0})
		res.AddStat("tiny_presenceless_cases", 1)
		w.run(&res, idx, w.seed, false, &h)
		return res
	}
	w.run(&res, idx, w.seed, false, nil)
	return res
}

func (w *c10Worker) Replay(data json.RawMessage) runner.CaseResult {
	res := runner.CaseResult{Case: "replay"}
	var rp struct {
		Seed  int64        `json:"seed"`
		Idx   int          `json:"idx"`
		Dedup bool         `json:"dedup"`
		H     *sim.History `json:"h"`
	}
	_ = json.Unmarshal(data, &rp)
	if rp.H != nil && len(rp.H.Steps) == 0 {
		rp.H = nil
	}
	w.run(&res, rp.Idx, rp.Seed, rp.Dedup, rp.H)
	return res
}
