package props

import (
	"bytes"
	"context"
	"encoding/binary"
	"encoding/json"
	"fmt"
	"io"
	"net/http"
	"sort"
	"strings"
	"sync/atomic"
	gotime "time"

	"connectrpc.com/connect"
	"google.golang.org/protobuf/proto"
	"google.golang.org/protobuf/reflect/protoreflect"
	"google.golang.org/protobuf/types/dynamicpb"

	"github.com/yorkie-team/yorkie/admin"
	"github.com/yorkie-team/yorkie/api/converter"
	"github.com/yorkie-team/yorkie/api/types"
	api "github.com/yorkie-team/yorkie/api/yorkie/v1"
	"github.com/yorkie-team/yorkie/pkg/document"
	yjson "github.com/yorkie-team/yorkie/pkg/document/json"
	"github.com/yorkie-team/yorkie/pkg/document/presence"
	"github.com/yorkie-team/yorkie/pkg/key"

	"verif/internal/boot"
	"verif/internal/replica"
	"verif/internal/runner"
)

type c13 struct{}

func init() { register(c13{}) }

func (c13) ID() string    { return "C13" }
func (c13) Level() string { return "exploration" }
func (c13) Rule() string {
	return "case = one RPC procedure, enumerated from the generated service descriptors of YorkieService, AdminService and " +
		"ClusterService (a new procedure is picked up automatically). Per case a fresh fixture is built through the real APIs: " +
		"victim project B (owner admin) and attacker project A (owner: a second user who is no member of B), each with an activated " +
		"client, a document under the SAME key, a B-only document, a revision and a schema; B's values carry unique canary strings. " +
		"The request is built reflectively by field name from B's ids. Matrix: Yorkie procedures under {no key, A's public key} and " +
		"mixed ids (A's client with B's document/revision); Admin procedures under {none, garbage bearer, bearer of the non-member, " +
		"API-Key scheme with A's secret}; Cluster procedures under {no secret, wrong secret}. A CONTROL call with B's own credential " +
		"runs last: only when it is accepted does the request shape count as reaching the resource. Oracle for every foreign call: " +
		"rejected; B's stored state digest (project record, documents, change counts, client records, revisions, schemas, members) " +
		"unchanged; no response byte sequence contains a canary of B. Non-trivial = control accepted and >=2 foreign calls made."
}
func (c13) Assumptions() []string {
	return []string{"memdb", "no auth webhook configured", "UseDefaultProject alternates true/false per case", "procedures whose control call cannot be built are listed as inconclusive, not as passes"}
}

type procDesc struct {
	Service string
	Method  protoreflect.MethodDescriptor
}

func allProcs() []procDesc {
	var out []procDesc
	for _, fd := range []protoreflect.FileDescriptor{api.File_yorkie_v1_yorkie_proto, api.File_yorkie_v1_admin_proto, api.File_yorkie_v1_cluster_proto} {
		svcs := fd.Services()
		for i := 0; i < svcs.Len(); i++ {
			s := svcs.Get(i)
			ms := s.Methods()
			for j := 0; j < ms.Len(); j++ {
				out = append(out, procDesc{Service: string(s.FullName()), Method: ms.Get(j)})
			}
		}
	}
	sort.Slice(out, func(i, j int) bool {
		return out[i].Service+"/"+string(out[i].Method.Name()) < out[j].Service+"/"+string(out[j].Method.Name())
	})
	return out
}

func (c13) NumCases(string, int64) int { return len(allProcs()) * 2 }
func (c13) Exhaustive(string) bool     { return true }
func (c13) Floors(string) []runner.Floor {
	return []runner.Floor{{Stat: "foreign_calls", Min: 150}, {Stat: "controls_accepted", Min: 40}}
}

const clusterSecret = "c13-cluster-secret"

type c13Worker struct {
	envs [2]*boot.Env // [0] UseDefaultProject=true, [1] false
	seed int64
	tier string
	malc [2]*admin.Client
}

var c13seq atomic.Int64

func (c13) NewWorker(tier string, seed int64) (runner.Worker, error) {
	w := &c13Worker{seed: seed, tier: tier}
	for i, udp := range []bool{true, false} {
		u := udp
		env, err := boot.Start(boot.Options{ClusterSecret: clusterSecret, UseDefaultProject: &u})
		if err != nil {
			return nil, err
		}
		w.envs[i] = env
		mc, err := admin.Dial(env.Addr, admin.WithInsecure(true))
		if err != nil {
			return nil, err
		}
		ctx := context.Background()
		if _, err := mc.SignUp(ctx, "mallory", "Mallory-pw-123!"); err != nil {
			return nil, fmt.Errorf("signup: %w", err)
		}
		if _, err := mc.LogIn(ctx, "mallory", "Mallory-pw-123!"); err != nil {
			return nil, fmt.Errorf("login: %w", err)
		}
		w.malc[i] = mc
	}
	return w, nil
}

func (w *c13Worker) Close() {
	for _, e := range w.envs {
		if e != nil {
			e.Stop()
		}
	}
}

// side holds the ids of one project's fixture.
type side struct {
	proj     *types.Project
	rep      *replica.Replica
	docID    string
	docKey   string
	onlyKey  string
	onlyID   string
	revID    string
	schema   string
	session  string // channel session the client holds on channel docKey
	canaries []string
}

// c13Memberships counts fixtures in which the attacker really holds an admin membership elsewhere.
var c13Memberships atomic.Int64

// c13Sessions counts fixture sides whose client really holds a channel session.
var c13Sessions atomic.Int64

type fixture struct {
	env      *boot.Env
	A, B     side
	tokenB   string // admin's token (owner of B)
	tokenMal string
}

func tokenOf(c *admin.Client, env *boot.Env, user, pw string) string {
	ac, err := admin.Dial(env.Addr, admin.WithInsecure(true))
	if err != nil {
		return ""
	}
	defer ac.Close()
	t, _ := ac.LogIn(context.Background(), user, pw)
	return t
}

func (w *c13Worker) buildFixture(ei int) (*fixture, error) {
	env := w.envs[ei]
	ctx := context.Background()
	n := c13seq.Add(1)
	f := &fixture{env: env}
	pb, err := env.Admin.CreateProject(ctx, fmt.Sprintf("victim-b-%d", n))
	if err != nil {
		return nil, err
	}
	pa, err := w.malc[ei].CreateProject(ctx, fmt.Sprintf("attack-a-%d", n))
	if err != nil {
		return nil, err
	}
	f.tokenB = tokenOf(nil, env, env.AdminUser, env.AdminPW)
	f.tokenMal = tokenOf(nil, env, "mallory", "Mallory-pw-123!")
	shared := fmt.Sprintf("shared-doc-key-%d", n)
	mk := func(p *types.Project, tag string, adm *admin.Client) (side, error) {
		s := side{proj: p, docKey: shared, onlyKey: fmt.Sprintf("only-in-%s-doc-%d", tag, n)}
		canary := fmt.Sprintf("CANARY-%s-%d-x9q7", strings.ToUpper(tag), n)
		s.canaries = []string{canary, p.SecretKey}
		r := replica.New("c"+tag, p.PublicKey, fmt.Sprintf("c13-%s-%d", tag, n), env.RPC(p.PublicKey))
		if err := r.Activate(ctx); err != nil {
			return s, err
		}
		if err := r.Attach(ctx, key.Key(shared), replica.AttachOpts{Presence: map[string]string{"who": canary}}); err != nil {
			return s, err
		}
		if err := r.Update(func(root *yjson.Object, _ *presence.Presence) error {
			root.SetString("secret", canary)
			return nil
		}); err != nil {
			return s, err
		}
		if err := r.Sync(ctx, false); err != nil {
			return s, err
		}
		s.rep, s.docID = r, r.DocID
		// a second, project-only document (attached by a second Document of the same client)
		r2 := replica.New("c"+tag+"2", p.PublicKey, fmt.Sprintf("c13-%s2-%d", tag, n), env.RPC(p.PublicKey))
		if err := r2.Activate(ctx); err != nil {
			return s, err
		}
		if err := r2.Attach(ctx, key.Key(s.onlyKey), replica.AttachOpts{}); err != nil {
			return s, err
		}
		_ = r2.Update(func(root *yjson.Object, _ *presence.Presence) error {
			root.SetString("secret", canary)
			return nil
		})
		_ = r2.Sync(ctx, false)
		s.onlyID = r2.DocID
		// revision
		res, err := env.RPC(p.PublicKey).CreateRevision(ctx, hdr(connectReq(&api.CreateRevisionRequest{
			ClientId: r.ID.String(), DocumentId: r.DocID, Label: "rev-" + tag, Description: canary,
		}), p.PublicKey, shared))
		if err == nil && res.Msg.Revision != nil {
			s.revID = res.Msg.Revision.Id
		}
		// a channel session of the shared client (channel key = the shared document key)
		if cres, err := env.RPC(p.PublicKey).AttachChannel(ctx, hdr(connectReq(&api.AttachChannelRequest{
			ClientId: r.ID.String(), ChannelKey: shared,
		}), p.PublicKey, shared)); err == nil {
			s.session = cres.Msg.SessionId
			c13Sessions.Add(1)
		}
		// schema
		s.schema = fmt.Sprintf("schema-%s-%d", tag, n)
		_ = adm.CreateSchema(ctx, p.Name, s.schema, 1, "type Document = { secret: string; };", []types.Rule{{Path: "$.secret", Type: "string"}})
		return s, nil
	}
	if f.B, err = mk(pb, "b", env.Admin); err != nil {
		return nil, fmt.Errorf("fixture B: %w", err)
	}
	if f.A, err = mk(pa, "a", w.malc[ei]); err != nil {
		return nil, fmt.Errorf("fixture A: %w", err)
	}
	// the attacker is a legitimate ADMIN member of a third project of the victim's owner:
	// a role held in one project must not count in another
	if pc, err := env.Admin.CreateProject(ctx, fmt.Sprintf("team-c-%d", n)); err == nil {
		if tok, err := env.Admin.CreateInvite(ctx, pc.Name, "admin", api.InviteExpireOption_INVITE_EXPIRE_OPTION_SEVEN_DAYS); err == nil {
			if _, err := w.malc[ei].AcceptInvite(ctx, tok); err == nil {
				c13Memberships.Add(1)
			}
		}
	}
	env.WaitIdle()
	return f, nil
}

// digest of everything stored for side s.
func (f *fixture) digest(s *side) string {
	ctx := context.Background()
	db := f.env.BE.DB
	var sb strings.Builder
	if pi, err := db.FindProjectInfoByID(ctx, s.proj.ID); err == nil {
		fmt.Fprintf(&sb, "project{%s %s %s %s thr=%d int=%d rod=%v hook=%s}\n", pi.Name, pi.PublicKey, pi.SecretKey, pi.Owner, pi.SnapshotThreshold, pi.SnapshotInterval, pi.RemoveOnDetach, pi.AuthWebhookURL)
	} else {
		fmt.Fprintf(&sb, "project ERR %v\n", err)
	}
	for _, id := range []string{s.docID, s.onlyID} {
		ref := types.DocRefKey{ProjectID: s.proj.ID, DocID: types.ID(id)}
		if di, err := db.FindDocInfoByRefKey(ctx, ref); err == nil {
			cs, _ := db.FindChangeInfosBetweenServerSeqs(ctx, ref, 1, 1<<62)
			fmt.Fprintf(&sb, "doc{%s %s seq=%d removed=%v schema=%q epoch=%d changes=%d}\n", id, di.Key, di.ServerSeq, !di.RemovedAt.IsZero(), di.Schema, di.Epoch, len(cs))
		} else {
			fmt.Fprintf(&sb, "doc %s ERR %v\n", id, err)
		}
		if revs, err := db.FindRevisionInfosByPaging(ctx, ref, types.Paging[int]{PageSize: 100}, false); err == nil {
			fmt.Fprintf(&sb, "revisions{%s %d}\n", id, len(revs))
		}
	}
	if ci, err := db.FindClientInfoByRefKey(ctx, types.ClientRefKey{ProjectID: s.proj.ID, ClientID: types.IDFromActorID(s.rep.ID)}, true); err == nil {
		fmt.Fprintf(&sb, "client{%s}\n", clientDigest(ci))
	}
	if sc, err := db.ListSchemaInfos(ctx, s.proj.ID); err == nil {
		fmt.Fprintf(&sb, "schemas{%d}\n", len(sc))
	}
	if ms, err := db.ListMemberInfos(ctx, s.proj.ID); err == nil {
		fmt.Fprintf(&sb, "members{%d}\n", len(ms))
	}
	return sb.String()
}

func connectReq[T any](m *T) *connect.Request[T] { return connect.NewRequest(m) }

// ---- reflective request building ----

type idset struct {
	clientID, clientKey string
	docID, docKey       string
	onlyKey, onlyID     string
	projectID, projName string
	revID, schema       string
	session             string
	pack                *api.ChangePack
}

func (f *fixture) ids(cl *side, res *side) idset {
	d := document.New(key.Key(res.docKey))
	d.SetActor(cl.rep.ID)
	_ = d.Update(func(root *yjson.Object, _ *presence.Presence) error {
		root.SetString("intruder", "was-here")
		return nil
	})
	pack, _ := converter.ToChangePack(d.CreateChangePack())
	return idset{
		clientID: cl.rep.ID.String(), clientKey: cl.rep.ClientKey,
		docID: res.docID, docKey: res.docKey, onlyKey: res.onlyKey, onlyID: res.onlyID,
		projectID: res.proj.ID.String(), projName: res.proj.Name,
		revID: res.revID, schema: res.schema, session: cl.session, pack: pack,
	}
}

func fill(m *dynamicpb.Message, ids idset) {
	fields := m.Descriptor().Fields()
	for i := 0; i < fields.Len(); i++ {
		fd := fields.Get(i)
		name := string(fd.Name())
		setStr := func(v string) {
			if fd.Kind() == protoreflect.StringKind && !fd.IsList() {
				m.Set(fd, protoreflect.ValueOfString(v))
			}
		}
		switch {
		case fd.IsList() && fd.Kind() == protoreflect.StringKind:
			l := m.Mutable(fd).List()
			switch name {
			case "document_keys", "channel_keys", "keys":
				l.Append(protoreflect.ValueOfString(ids.docKey))
				l.Append(protoreflect.ValueOfString(ids.onlyKey))
			case "document_ids":
				l.Append(protoreflect.ValueOfString(ids.docID))
			}
		case name == "client_id":
			setStr(ids.clientID)
		case name == "client_key":
			setStr(ids.clientKey)
		case name == "document_id":
			setStr(ids.docID)
		case name == "document_key" || name == "channel_key" || name == "query" || name == "key":
			setStr(ids.docKey)
		case name == "project_id" || name == "id":
			setStr(ids.projectID)
		case name == "project_name" || name == "name":
			setStr(ids.projName)
		case name == "revision_id":
			setStr(ids.revID)
		case name == "session_id":
			setStr(ids.session)
		case name == "schema_name":
			setStr(ids.schema)
		case name == "synchronous" || name == "force":
			if fd.Kind() == protoreflect.BoolKind {
				m.Set(fd, protoreflect.ValueOfBool(name == "synchronous"))
			}
		case name == "schema_key":
			// left empty on purpose (attach without schema)
		case name == "version" || name == "schema_version":
			if fd.Kind() == protoreflect.Int32Kind {
				m.Set(fd, protoreflect.ValueOfInt32(1))
			}
		case name == "page_size" || name == "limit":
			if fd.Kind() == protoreflect.Int32Kind {
				m.Set(fd, protoreflect.ValueOfInt32(10))
			}
		case name == "label" || name == "description" || name == "root" || name == "topic":
			setStr("x")
		case name == "username":
			setStr("nobody-here")
		case name == "password" || name == "current_password" || name == "new_password":
			setStr("Nobody-pw-123!")
		case name == "change_pack" && fd.Kind() == protoreflect.MessageKind && ids.pack != nil:
			b, _ := proto.Marshal(ids.pack)
			sub := dynamicpb.NewMessage(fd.Message())
			if proto.Unmarshal(b, sub) == nil {
				m.Set(fd, protoreflect.ValueOfMessage(sub))
			}
		case name == "project" && fd.Kind() == protoreflect.MessageKind:
			sub := dynamicpb.NewMessage(fd.Message())
			fill(sub, ids)
			m.Set(fd, protoreflect.ValueOfMessage(sub))
		case name == "resources" && fd.IsList() && fd.Kind() == protoreflect.MessageKind:
			rd := dynamicpb.NewMessage(fd.Message())
			if dfd := rd.Descriptor().Fields().ByName("document"); dfd != nil {
				dd := dynamicpb.NewMessage(dfd.Message())
				fill(dd, ids)
				rd.Set(dfd, protoreflect.ValueOfMessage(dd))
			}
			m.Mutable(fd).List().Append(protoreflect.ValueOfMessage(rd))
		}
	}
}

// ---- raw connect transport ----

type rawResult struct {
	accepted bool
	code     string
	body     []byte
	open     bool // stream still open when we stopped reading
}

func (w *c13Worker) call(env *boot.Env, p procDesc, msg proto.Message, headers map[string]string) rawResult {
	payload, _ := proto.Marshal(msg)
	url := fmt.Sprintf("http://%s/%s/%s", env.Addr, p.Service, p.Method.Name())
	streaming := p.Method.IsStreamingServer() || p.Method.IsStreamingClient()
	var body io.Reader = bytes.NewReader(payload)
	ct := "application/proto"
	if streaming {
		var buf bytes.Buffer
		buf.WriteByte(0)
		_ = binary.Write(&buf, binary.BigEndian, uint32(len(payload)))
		buf.Write(payload)
		body = &buf
		ct = "application/connect+proto"
	}
	ctx, cancel := context.WithTimeout(context.Background(), 1500*gotime.Millisecond)
	defer cancel()
	req, _ := http.NewRequestWithContext(ctx, "POST", url, body)
	req.Header.Set("Content-Type", ct)
	req.Header.Set("Connect-Protocol-Version", "1")
	req.Header.Set("Accept-Encoding", "identity")
	for k, v := range headers {
		req.Header.Set(k, v)
	}
	resp, err := env.HTTP.Do(req)
	if err != nil {
		return rawResult{code: "transport: " + err.Error()}
	}
	defer resp.Body.Close()
	var hb bytes.Buffer
	for k, vs := range resp.Header {
		fmt.Fprintf(&hb, "%s: %s\n", k, strings.Join(vs, ","))
	}
	data, rerr := io.ReadAll(resp.Body)
	all := append(hb.Bytes(), data...)
	if !streaming {
		if resp.StatusCode == 200 {
			return rawResult{accepted: true, body: all}
		}
		var e struct {
			Code string `json:"code"`
		}
		_ = json.Unmarshal(data, &e)
		if e.Code == "" {
			e.Code = fmt.Sprintf("http-%d", resp.StatusCode)
		}
		return rawResult{code: e.Code, body: all}
	}
	// streaming: walk the envelopes
	if resp.StatusCode != 200 {
		return rawResult{code: fmt.Sprintf("http-%d", resp.StatusCode), body: all}
	}
	rest := data
	for len(rest) >= 5 {
		flag := rest[0]
		n := int(binary.BigEndian.Uint32(rest[1:5]))
		if len(rest) < 5+n {
			break
		}
		frame := rest[5 : 5+n]
		rest = rest[5+n:]
		if flag&2 != 0 {
			var e struct {
				Error *struct {
					Code string `json:"code"`
				} `json:"error"`
			}
			_ = json.Unmarshal(frame, &e)
			if e.Error != nil {
				return rawResult{code: e.Error.Code, body: all}
			}
			return rawResult{accepted: true, body: all}
		}
	}
	// no end-of-stream frame: the server kept the stream open until our deadline
	_ = rerr
	return rawResult{accepted: true, open: true, body: all}
}

// phantom replaces every id of the victim by a well-formed id that does not exist.
func phantom(ids idset, n int64) idset {
	p := ids
	p.clientID = fmt.Sprintf("%024x", 0xfeed00000000+n)
	p.docID = fmt.Sprintf("%024x", 0xbeef00000000+n)
	p.onlyID = fmt.Sprintf("%024x", 0xbeee00000000+n)
	p.revID = fmt.Sprintf("%024x", 0xcafe00000000+n)
	p.projectID = fmt.Sprintf("%024x", 0xdead00000000+n)
	p.projName = fmt.Sprintf("no-such-project-%d", n)
	p.schema = fmt.Sprintf("no-such-schema-%d", n)
	return p
}

func containsCanary(body []byte, canaries []string) string {
	for _, c := range canaries {
		if c != "" && bytes.Contains(body, []byte(c)) {
			return c
		}
	}
	return ""
}

func (w *c13Worker) Run(idx int) runner.CaseResult {
	procs := allProcs()
	p := procs[idx/2]
	ei := idx % 2
	name := p.Service[strings.LastIndex(p.Service, ".")+1:] + "/" + string(p.Method.Name())
	res := runner.CaseResult{Case: fmt.Sprintf("%s[udp=%v]", name, ei == 0)}
	res.Hash = res.Case
	f, err := w.buildFixture(ei)
	if err != nil {
		res.Inconclusive = "fixture: " + err.Error()
		return res
	}
	env := f.env
	svc := p.Service[strings.LastIndex(p.Service, ".")+1:]
	type attempt struct {
		label   string
		headers map[string]string
		ids     idset
	}
	var foreign []attempt
	var control attempt
	shard := f.B.proj.PublicKey + "/" + f.B.docKey
	switch svc {
	case "YorkieService":
		foreign = []attempt{
			{"no api key, B's ids", map[string]string{"x-shard-key": shard}, f.ids(&f.B, &f.B)},
			{"A's key, B's client and document ids", map[string]string{"x-api-key": f.A.proj.PublicKey, "x-shard-key": shard}, f.ids(&f.B, &f.B)},
			{"A's key, A's client, B's document/revision ids", map[string]string{"x-api-key": f.A.proj.PublicKey, "x-shard-key": shard}, f.ids(&f.A, &f.B)},
		}
		// one foreign id at a time, everything else the attacker's own
		own := f.ids(&f.A, &f.A)
		onlyRev := own
		onlyRev.revID = f.B.revID
		onlyDoc := own
		onlyDoc.docID, onlyDoc.onlyID = f.B.docID, f.B.onlyID
		onlyCli := own
		onlyCli.clientID = f.B.rep.ID.String()
		hA := map[string]string{"x-api-key": f.A.proj.PublicKey, "x-shard-key": shard}
		foreign = append(foreign,
			attempt{"A's key, A's client and document, only the revision id is B's", hA, onlyRev},
			attempt{"A's key, A's client, only the document id is B's", hA, onlyDoc},
			attempt{"A's key, A's document, only the client id is B's", hA, onlyCli},
		)
		if ei == 0 {
			// with UseDefaultProject a missing key means the default project: still not B
			foreign[0].label = "no api key (default project), B's ids"
		}
		control = attempt{"B's key, B's ids", map[string]string{"x-api-key": f.B.proj.PublicKey, "x-shard-key": shard}, f.ids(&f.B, &f.B)}
	case "AdminService":
		foreign = []attempt{
			{"no credential", map[string]string{}, f.ids(&f.B, &f.B)},
			{"garbage bearer token", map[string]string{"authorization": "Bearer not.a.token"}, f.ids(&f.B, &f.B)},
			{"bearer token of a user who is not a member of B", map[string]string{"authorization": "Bearer " + f.tokenMal}, f.ids(&f.B, &f.B)},
			{"API-Key scheme with A's secret key", map[string]string{"authorization": "API-Key " + f.A.proj.SecretKey}, f.ids(&f.B, &f.B)},
		}
		control = attempt{"bearer token of B's owner", map[string]string{"authorization": "Bearer " + f.tokenB}, f.ids(&f.B, &f.B)}
	case "ClusterService":
		foreign = []attempt{
			{"no cluster secret", map[string]string{"x-shard-key": shard}, f.ids(&f.B, &f.B)},
			{"wrong cluster secret", map[string]string{"x-cluster-secret": "wrong", "x-shard-key": shard}, f.ids(&f.B, &f.B)},
		}
		control = attempt{"right cluster secret", map[string]string{"x-cluster-secret": clusterSecret, "x-shard-key": shard}, f.ids(&f.B, &f.B)}
	}
	accountProc := map[string]bool{"SignUp": true, "LogIn": true, "DeleteAccount": true, "ChangePassword": true}
	isAccount := svc == "AdminService" && accountProc[string(p.Method.Name())]
	before := f.digest(&f.B)
	build := func(a attempt) proto.Message {
		m := dynamicpb.NewMessage(p.Method.Input())
		fill(m, a.ids)
		return m
	}
	replay := map[string]any{"idx": idx}
	for _, a := range foreign {
		r := w.call(env, p, build(a), a.headers)
		env.WaitIdle()
		res.AddStat("foreign_calls", 1)
		if m := c13Memberships.Swap(0); m > 0 {
			res.AddStat("fixtures_with_attacker_admin_membership_elsewhere", m)
		}
		if m := c13Sessions.Swap(0); m > 0 {
			res.AddStat("fixture_clients_holding_a_channel_session", m)
		}
		res.AddSet("reject_codes", r.code)
		after := f.digest(&f.B)
		if c := containsCanary(r.body, f.B.canaries); c != "" {
			res.Violate("foreign-data-leaked", fmt.Sprintf("%s with %s: the response contains %q of project B", name, a.label, c), name+"|leak", replay)
		}
		if after != before {
			res.Violate("foreign-state-modified", fmt.Sprintf("%s with %s changed project B:\nbefore:\n%safter:\n%s", name, a.label, before, after), name+"|modified", replay)
			before = after
		}
		// existence oracle: the same call with well-formed but non-existent ids must be
		// indistinguishable (same accept/reject, same code) from the call with B's real ids
		ph := a
		ph.ids = phantom(a.ids, c13seq.Add(1))
		// ids of the attacker's own side stay real
		if strings.Contains(a.label, "A's client") {
			ph.ids.clientID, ph.ids.clientKey = a.ids.clientID, a.ids.clientKey
		}
		if strings.Contains(a.label, "only the revision id") {
			ph.ids.docID, ph.ids.onlyID = a.ids.docID, a.ids.onlyID
		}
		if strings.Contains(a.label, "only the client id") {
			ph.ids.docID, ph.ids.onlyID, ph.ids.revID = a.ids.docID, a.ids.onlyID, a.ids.revID
		}
		if strings.Contains(a.label, "only the document id") {
			ph.ids.revID = a.ids.revID
		}
		realMsg, _ := proto.MarshalOptions{Deterministic: true}.Marshal(build(a))
		phMsg, _ := proto.MarshalOptions{Deterministic: true}.Marshal(build(ph))
		if bytes.Equal(realMsg, phMsg) || string(p.Method.Name()) == "CreateProject" {
			// the request names no id of B (or only a project name, which lives in one global namespace)
			continue
		}
		r2 := w.call(env, p, build(ph), ph.headers)
		env.WaitIdle()
		res.AddStat("phantom_calls", 1)
		if !isAccount && (r.accepted != r2.accepted || r.code != r2.code) {
			res.Violate("foreign-existence-revealed", fmt.Sprintf("%s with %s: B's real ids give accepted=%v code=%q, non-existent ids give accepted=%v code=%q",
				name, a.label, r.accepted, r.code, r2.accepted, r2.code), name+"|existence", replay)
		}
		if after2 := f.digest(&f.B); after2 != before {
			res.Violate("foreign-state-modified", fmt.Sprintf("%s with %s (phantom ids) changed project B", name, a.label), name+"|modified", replay)
			before = after2
		}
	}
	if !isAccount {
		r := w.call(env, p, build(control), control.headers)
		env.WaitIdle()
		if !r.accepted && svc == "AdminService" {
			// project-scoped admin procedures (ListDocuments, GetDocument, ListChanges, ...)
			// take their project from an API-Key credential, not from a user token
			c2 := attempt{"API-Key scheme with B's secret key", map[string]string{"authorization": "API-Key " + f.B.proj.SecretKey}, f.ids(&f.B, &f.B)}
			if r2 := w.call(env, p, build(c2), c2.headers); r2.accepted {
				r, control = r2, c2
				res.AddStat("controls_built_with_secret_key", 1)
			}
			env.WaitIdle()
		}
		if r.accepted {
			res.AddStat("controls_accepted", 1)
		} else {
			res.AddStat("controls_rejected", 1)
			res.AddSet("unbuildable_controls", fmt.Sprintf("%s: %s", name, r.code))
			res.Inconclusive = fmt.Sprintf("control call (%s) was rejected with %s: the generic request does not reach the resource, so the foreign rejections of this procedure prove little", control.label, r.code)
		}
		res.Nontrivial = r.accepted && len(foreign) >= 2
	}
	b, _ := json.Marshal(map[string]any{"procedure": name, "use_default_project": ei == 0, "foreign_attempts": len(foreign), "reject_codes": res.Sets["reject_codes"]})
	res.Sample = b
	return res
}

func (w *c13Worker) Replay(data json.RawMessage) runner.CaseResult {
	var rp struct {
		Idx int `json:"idx"`
	}
	_ = json.Unmarshal(data, &rp)
	return w.Run(rp.Idx)
}
