package props

import (
	"context"
	"encoding/json"
	"fmt"

	"github.com/yorkie-team/yorkie/pkg/document"
	"github.com/yorkie-team/yorkie/server/packs"

	"verif/internal/boot"
	"verif/internal/gen"
	"verif/internal/replica"
	"verif/internal/runner"
	"verif/internal/sim"
)

type c02 struct{}

func init() { register(c02{}) }

func (c02) ID() string    { return "C02" }
func (c02) Level() string { return "exploration" }
func (c02) Rule() string {
	return "case = one generated history (C01 alphabet, late attachers, replicas that fall behind the threshold while holding " +
		"unsent edits, further edits made on snapshot-fed replicas) run on the real server under snapshot interval=threshold in " +
		"{1,2,3,7} and a snapshot-cache regime in {warm, cold (entry removed before each request), evicted (cache size 1 + decoy " +
		"document touched before each request)}, and replayed on a snapshot-free twin. Oracles: no error; replicas converge; " +
		"at every quiescent point every replica (snapshot-fed or not) equals a change-fed shadow InternalDocument that applies the " +
		"server log row by row and is never garbage-collected; that shadow also equals packs.BuildInternalDocForServerSeq(s) for " +
		"sampled s under cold and warm cache. Reported only " +
		"when the snapshot-free twin is clean. Non-trivial = at least one response carried a snapshot and >=2 replicas edited."
}
func (c02) Assumptions() []string {
	return []string{"memdb backend", "known-finding fences active (see coverage.observed guard_vetoes_*)", "replica driver mirrors client.Client"}
}
func (c02) NumCases(tier string, _ int64) int {
	if tier == "thorough" {
		return 20000
	}
	return 3000
}
func (c02) Exhaustive(string) bool { return false }
func (c02) Floors(string) []runner.Floor {
	return []runner.Floor{{Stat: "snapshot_pulls", Min: 500}, {Stat: "rebuilds_compared", Min: 500}, {Stat: "shadow_comparisons", Min: 500}}
}

type c02Worker struct {
	*simWorker
	decoy *sim.World
}

func (c02) NewWorker(tier string, seed int64) (runner.Worker, error) {
	sw, err := newSimWorker(tier, seed, boot.Options{SnapshotCacheSize: 1})
	if err != nil {
		return nil, err
	}
	w := &c02Worker{simWorker: sw}
	// decoy document used to evict the cache entry
	proj, err := sw.project(0)
	if err != nil {
		return nil, err
	}
	d := sim.NewWorld(sw.env, proj, sim.WorldCfg{}, "decoy")
	d.Exec(sim.Step{T: "attach", R: 0})
	d.Exec(sim.Step{T: "edit", R: 0, E: gen.InitEdits()})
	d.Exec(sim.Step{T: "sync", R: 0})
	if len(d.Fail) > 0 {
		return nil, fmt.Errorf("decoy: %s", d.Fail[0].Detail)
	}
	w.decoy = d
	return w, nil
}

func (w *c02Worker) touchDecoy() {
	di, err := w.decoy.DocInfo()
	if err != nil {
		return
	}
	_, _ = packs.BuildInternalDocForServerSeq(context.Background(), w.env.BE, di, di.ServerSeq)
}

func c02Cfg(tier string, seed int64, idx int) (sim.GenCfg, sim.WorldCfg) {
	rng := caseRng(seed^0xc02, idx)
	g := sim.GenCfg{
		N:            2 + rng.Intn(2),
		MaxReps:      6,
		Steps:        16 + rng.Intn(30),
		Profile:      gen.DefaultProfile(),
		SplitSyncPct: 10,
		PushOnlyPct:  5,
		DetachPct:    3,
		QuiescePct:   6,
		MultiEditPct: 15,
		Offline:      rng.Intn(2) == 0,
		EditPct:      55,
	}
	if tier == "thorough" {
		g.Steps = 16 + rng.Intn(70)
	}
	switch rng.Intn(6) {
	case 0:
		g.Profile = gen.Profile{Arr: 1, DeleteBias: 30, MaxDepth: 2, NewContainers: 5}
	case 1:
		g.Profile = gen.Profile{Txt: 1, DeleteBias: 30, MaxDepth: 1, Unicode: true, MaxText: 14}
	case 2:
		g.Profile = gen.Profile{Tree: 1, DeleteBias: 30, MaxDepth: 1, TreeMixed: idx%2 == 1}
	case 3:
		g.Profile = gen.Profile{Obj: 3, Arr: 1, Cnt: 1, DeleteBias: 30, MaxDepth: 3, NewContainers: 30}
	}
	cfg := sim.WorldCfg{Snap: []int64{1, 2, 3, 7}[rng.Intn(4)]}
	switch rng.Intn(3) {
	case 1:
		cfg.ColdCache = true
	case 2:
		cfg.Evict = true
	}
	return g, cfg
}

func (w *c02Worker) run(res *runner.CaseResult, idx int, replay *sim.History, cfgA sim.WorldCfg, g sim.GenCfg) {
	var vet Vetoed
	g.Guard = makeGuard(Guards{ArrSetMoved: true, InsertBeforeTombstone: true}, &vet)
	defer func() {
		res.AddStat("guard_vetoes_arr_set_moved", vet.ArrSetMoved)
		res.AddStat("guard_vetoes_insert_before_tombstone", vet.InsertBeforeTombstone)
	}()
	cfgB := sim.WorldCfg{Snap: 0}
	// change-fed shadow: applies every row of the server log one by one, is
	// never garbage-collected and never sees a snapshot.
	var shadow *document.InternalDocument
	var shadowSeq int64
	shadowFail := ""
	t, err := w.runTwin(fmt.Sprintf("c02-%d", idx), cfgA, cfgB, caseRng(w.seed, idx), g, replay, func(a *sim.World) {
		if cfgA.Evict {
			a.PreReq = func(*sim.World) { w.touchDecoy() }
		}
		shadow = document.NewInternalDocument(a.DocKey)
		prev := a.OnQuiesce
		a.OnQuiesce = func(wd *sim.World, att []*replica.Replica) {
			prev(wd, att)
			if shadowFail != "" {
				return
			}
			log, err := wd.ServerLog()
			if err != nil {
				return
			}
			for _, row := range log {
				if row.ServerSeq <= shadowSeq {
					continue
				}
				c, err := row.ToChange()
				if err == nil {
					_, _, err = shadow.ApplyChanges(c)
				}
				if err != nil {
					shadowFail = fmt.Sprintf("change-fed shadow cannot apply serverSeq %d: %v", row.ServerSeq, err)
					return
				}
				shadowSeq = row.ServerSeq
			}
			want := shadow.Marshal()
			for _, r := range att {
				res.AddStat("shadow_comparisons", 1)
				if got := r.Doc.Marshal(); got != want {
					wd.Fail = append(wd.Fail, sim.Failure{Kind: "replica-differs-from-change-replay", Step: len(wd.Events),
						Detail: fmt.Sprintf("at serverSeq %d replica %s differs from the change-by-change replay of the server log:\n replica: %s\n replay : %s", shadowSeq, r.Name, got, want)})
					return
				}
			}
		}
	})
	if err != nil {
		res.Inconclusive = err.Error()
		return
	}
	res.Hash = runner.HashOf(map[string]any{"s": t.H.Steps, "c": cfgA})
	editors, applied := historyStats(res, t.A, t.H)
	res.AddStat("snapshot_pulls", int64(t.ObsA.snapshots))
	res.AddStat("responses", int64(t.ObsA.responses))
	res.AddSet("regimes", fmt.Sprintf("snap=%d cold=%v evict=%v", cfgA.Snap, cfgA.ColdCache, cfgA.Evict))
	res.Nontrivial = editors >= 2 && applied >= 4 && t.ObsA.snapshots > 0
	if len(t.B.Fail) > 0 {
		res.AddStat("twin_unclean", 1)
		res.Notes = append(res.Notes, "snapshot-free twin failed: "+t.B.Fail[0].Kind+": "+t.B.Fail[0].Detail)
		return
	}
	addFailures(res, t.A.Fail, t.H, "snapshot:")
	if len(t.A.Fail) == 0 {
		if shadowFail != "" {
			res.Violate("shadow-apply-failed", shadowFail, "", t.H)
		}
		w.checkRebuild(res, t)
	}
	if idx%97 == 0 || len(res.Viol) > 0 {
		res.Sample = sampleOf(t.H, map[string]any{"snapshot_pulls": t.ObsA.snapshots, "final": finalContent(t.A)})
	}
}

// checkRebuild compares the server's rebuild for sampled serverSeqs with a
// change-fed shadow document (never garbage-collected, never snapshot-fed).
func (w *c02Worker) checkRebuild(res *runner.CaseResult, t *twinRun) {
	ctx := context.Background()
	di, err := t.A.DocInfo()
	if err != nil {
		return
	}
	log, err := t.A.ServerLog()
	if err != nil {
		res.Violate("server-log-unreadable", err.Error(), "", t.H)
		return
	}
	shadow := document.NewInternalDocument(t.A.DocKey)
	contents := map[int64]string{}
	for _, row := range log {
		c, err := row.ToChange()
		if err != nil {
			res.Violate("stored-change-undecodable", fmt.Sprintf("serverSeq %d: %v", row.ServerSeq, err), "", t.H)
			return
		}
		if _, _, err := shadow.ApplyChanges(c); err != nil {
			res.Violate("shadow-apply-failed", fmt.Sprintf("change-fed shadow cannot apply serverSeq %d: %v", row.ServerSeq, err), "", t.H)
			return
		}
		contents[row.ServerSeq] = shadow.Marshal()
	}
	head := di.ServerSeq
	var seqs []int64
	if head <= 48 {
		for s := int64(1); s <= head; s++ {
			seqs = append(seqs, s)
		}
	} else {
		for s := int64(1); s <= head; s += head / 32 {
			seqs = append(seqs, s)
		}
		seqs = append(seqs, head)
	}
	for pass := 0; pass < 3; pass++ {
		// pass 0: descending with a cold cache each time; pass 1: ascending, warm
		// (cache entry always older than the request); pass 2: descending, warm
		// (cache entry always newer than the request)
		for i := range seqs {
			s := seqs[i]
			if pass == 0 {
				s = seqs[len(seqs)-1-i]
				w.env.BE.Cache.Snapshot.Remove(di.RefKey())
			}
			if pass == 2 {
				s = seqs[len(seqs)-1-i]
			}
			doc, err := packs.BuildInternalDocForServerSeq(ctx, w.env.BE, di, s)
			if err != nil {
				res.Violate("server-rebuild-failed", fmt.Sprintf("BuildInternalDocForServerSeq(%d) (pass %d): %v", s, pass, err), "", t.H)
				return
			}
			res.AddStat("rebuilds_compared", 1)
			if want, ok := contents[s]; ok && doc.Marshal() != want {
				res.Violate("server-rebuild-differs", fmt.Sprintf("BuildInternalDocForServerSeq(%d) (pass %d: 0=cold 1=warm-ascending 2=warm-descending):\n got  %s\n want %s (change-fed shadow)", s, pass, doc.Marshal(), want), "", t.H)
				return
			}
		}
	}
	// the final replicas must equal the shadow's head too
	if att := t.A.Attached(); len(att) > 0 && len(t.A.Fail) == 0 {
		if got, want := att[0].Doc.Marshal(), contents[head]; want != "" && got != want && !att[0].Doc.HasLocalChanges() && att[0].Doc.Checkpoint().ServerSeq == head {
			res.Violate("replica-differs-from-log", fmt.Sprintf("replica %s: %s\nchange-fed shadow of the server log: %s", att[0].Name, got, want), "", t.H)
		}
	}
}

func (w *c02Worker) Run(idx int) runner.CaseResult {
	res := runner.CaseResult{Case: fmt.Sprintf("c02-%d", idx)}
	g, cfg := c02Cfg(w.tier, w.seed, idx)
	w.run(&res, idx, nil, cfg, g)
	return res
}

func (w *c02Worker) Replay(data json.RawMessage) runner.CaseResult {
	res := runner.CaseResult{Case: "replay"}
	var h sim.History
	if err := json.Unmarshal(data, &h); err != nil {
		res.Inconclusive = err.Error()
		return res
	}
	w.run(&res, 0, &h, h.Cfg, sim.GenCfg{})
	return res
}
