package props

import (
	"encoding/json"
	"fmt"
	"math/rand"
	"strings"

	"github.com/yorkie-team/yorkie/api/converter"
	"github.com/yorkie-team/yorkie/pkg/document"
	"github.com/yorkie-team/yorkie/pkg/document/change"
	"github.com/yorkie-team/yorkie/pkg/document/crdt"
	yjson "github.com/yorkie-team/yorkie/pkg/document/json"
	"github.com/yorkie-team/yorkie/pkg/document/presence"
	"github.com/yorkie-team/yorkie/pkg/document/time"
	"github.com/yorkie-team/yorkie/pkg/key"

	"verif/internal/gen"
	"verif/internal/model"
	"verif/internal/runner"
)

type c07 struct{}

func init() {
	register(c07{})
	model.PrimMarshal = primMarshal
}

var primCache = map[string]string{}

// primMarshal renders a primitive with an independent one-element document.
func primMarshal(v *gen.Val) string {
	kb, _ := json.Marshal(v)
	k := string(kb)
	if s, ok := primCache[k]; ok {
		return s
	}
	d := document.New(key.Key("prim-scratch"))
	_ = d.Update(func(root *yjson.Object, _ *presence.Presence) error {
		e := gen.Edit{Op: "obj.set", K: "x", V: v}
		return gen.Apply(root, nil, &e)
	})
	s := d.RootObject().Get("x").Marshal()
	primCache[k] = s
	return s
}

func (c07) ID() string    { return "C07" }
func (c07) Level() string { return "exploration" }
func (c07) Rule() string {
	return "case = a program of public editing calls on ONE Document, checked call by call against plain reference models (text = " +
		"[]uint16 + per-unit attributes, array = slice, object = map, counter = int32/int64 with wraparound, tree = small DOM): " +
		"(rand) random programs over nested containers interleaved with 'scar' steps that leave tombstones / split nodes / dead " +
		"slots behind - concurrent edits of an in-process peer delivered through the protobuf codec, GC with the common vector, " +
		"snapshot encode+decode of the subject (the model is re-read from the visible state after a scar); (exh) small-scope " +
		"exhaustive: ALL programs of length <=3 over a reduced alphabet on a text of <=4 units, an array of <=4 items and a tree " +
		"of <=3 blocks. Oracle after every call, on the user-visible clone AND on the authoritative root: structure-equal to the " +
		"model (keys, Len/Get(i), String + styled runs, counter value, ToXML/Len, splay weights, index<->position<->path round " +
		"trips). Only calls valid for the model's state are made. Non-trivial = >=5 applied calls. Trees include inline elements (mixed content); index/path round trip only where paths are unambiguous."
}
func (c07) Assumptions() []string {
	return []string{
		"text indices on code-point boundaries (mid-surrogate splits are a documented separate sub-domain)",
		"tree calls limited to same-parent ranges (text inside one element, whole elements, styles over whole elements)",
		"Array.Set* on an element that was moved before is fenced (recorded finding F-ARRSET-MOVED)",
		"dedup counters are not modelled here (C01/C18 cover them)",
	}
}
func (c07) NumCases(tier string, _ int64) int {
	if tier == "thorough" {
		return 200003
	}
	return 12003
}
func (c07) Exhaustive(string) bool { return false }
func (c07) Floors(string) []runner.Floor {
	return []runner.Floor{{Stat: "calls_checked", Min: 100000}, {Stat: "scars", Min: 2000}, {Stat: "exhaustive_programs", Min: 10000}, {Stat: "calls_on_trees_with_inline_elements", Min: 2000}}
}

type c07Worker struct {
	tier string
	seed int64
}

func (c07) NewWorker(tier string, seed int64) (runner.Worker, error) {
	return &c07Worker{tier: tier, seed: seed}, nil
}
func (w *c07Worker) Close() {}

var actorA, _ = time.ActorIDFromHex("0000000000000000000000aa")
var actorB, _ = time.ActorIDFromHex("0000000000000000000000bb")

// localPair is a subject document and an in-process peer exchanging changes
// through the protobuf codec (no server).
type localPair struct {
	S, P      *document.Document
	serverSeq int64
}

func newLocalPair() *localPair {
	lp := &localPair{S: document.New(key.Key("c07-doc")), P: document.New(key.Key("c07-doc"))}
	lp.S.SetActor(actorA)
	lp.P.SetActor(actorB)
	return lp
}

func roundTripChanges(cs []*change.Change) ([]*change.Change, error) {
	pb, err := converter.ToChanges(cs)
	if err != nil {
		return nil, err
	}
	return converter.FromChanges(pb)
}

// deliver sends from's local changes to to and acknowledges them at from.
func (lp *localPair) deliver(from, to *document.Document) error {
	pack := from.CreateChangePack()
	if len(pack.Changes) == 0 {
		return nil
	}
	cs, err := roundTripChanges(pack.Changes)
	if err != nil {
		return err
	}
	lp.serverSeq += int64(len(cs))
	if err := to.ApplyChangePack(change.NewPack(to.Key(), to.Checkpoint().NextServerSeq(lp.serverSeq), cs, nil, nil)); err != nil {
		return fmt.Errorf("peer delivery: %w", err)
	}
	return from.ApplyChangePack(change.NewPack(from.Key(), change.NewCheckpoint(lp.serverSeq, pack.Checkpoint.ClientSeq), nil, nil, nil))
}

// scar makes the peer edit concurrently, exchanges, optionally GCs and
// round-trips the subject through a snapshot.
func (lp *localPair) scar(rng *rand.Rand, prof gen.Profile) (string, error) {
	kind := "peer"
	// subject's pending changes reach the peer AFTER the peer edited: concurrency
	n := 1 + rng.Intn(3)
	for i := 0; i < n; i++ {
		conts := gen.Scan(lp.P.Root().Object, prof.MaxDepth)
		e := prof.Next(rng, conts, "peer")
		if e.Op == "arr.set" {
			continue
		}
		_ = safeUpdate(lp.P, []gen.Edit{e})
	}
	if err := lp.deliver(lp.S, lp.P); err != nil {
		return kind, err
	}
	if err := lp.deliver(lp.P, lp.S); err != nil {
		return kind, err
	}
	switch rng.Intn(4) {
	case 0:
		kind = "peer+gc"
		vs, vp := lp.S.VersionVector(), lp.P.VersionVector()
		minVV := time.MinVersionVector(vs, vp)
		lp.S.GarbageCollect(minVV)
		lp.P.GarbageCollect(minVV)
	case 1:
		kind = "peer+snapshot"
		b, err := converter.SnapshotToBytes(lp.S.RootObject(), lp.S.AllPresences())
		if err != nil {
			return kind, err
		}
		pack := change.NewPack(lp.S.Key(), lp.S.Checkpoint(), nil, lp.S.VersionVector().DeepCopy(), b)
		if err := lp.S.ApplyChangePack(pack); err != nil {
			return kind, fmt.Errorf("snapshot apply: %w", err)
		}
	}
	return kind, nil
}

func safeUpdate(d *document.Document, es []gen.Edit) (err error) {
	defer func() {
		if x := recover(); x != nil {
			err = fmt.Errorf("PANIC: %v", x)
		}
	}()
	return d.Update(func(root *yjson.Object, p *presence.Presence) error {
		for i := range es {
			if err := gen.Apply(root, p, &es[i]); err != nil {
				return err
			}
		}
		return nil
	})
}

// checkBoth compares clone and root with the model.
func checkBoth(d *document.Document, m *model.Node) string {
	if diff := model.Compare(d.Root().Object, m, ""); diff != "" {
		return "user-visible copy: " + diff
	}
	if diff := model.Compare(d.RootObject(), m, ""); diff != "" {
		return "authoritative root: " + diff
	}
	return ""
}

type c07Step struct {
	Scar string     `json:"scar,omitempty"`
	E    *gen.Edit  `json:"e,omitempty"`
	Peer []gen.Edit `json:"peer,omitempty"`
}

func c07Profile(rng *rand.Rand) gen.Profile {
	p := gen.DefaultProfile()
	p.NoDedup = true
	p.DeleteBias = 25
	switch rng.Intn(6) {
	case 0:
		p = gen.Profile{Arr: 1, DeleteBias: 35, MaxDepth: 2, NewContainers: 0}
	case 1:
		p = gen.Profile{Txt: 1, DeleteBias: 35, MaxDepth: 1, Unicode: true, MaxText: 20}
	case 2:
		p = gen.Profile{Tree: 1, DeleteBias: 35, MaxDepth: 1, TreeMixed: rng.Intn(2) == 0}
	case 3:
		p = gen.Profile{Obj: 2, Cnt: 2, DeleteBias: 20, MaxDepth: 3, NewContainers: 25, NoDedup: true}
	}
	return p
}

func (w *c07Worker) runRandom(res *runner.CaseResult, idx int) {
	rng := caseRng(w.seed^0xc07, idx)
	prof := c07Profile(rng)
	steps := 20 + rng.Intn(60)
	if w.tier == "thorough" {
		steps = 20 + rng.Intn(180)
	}
	lp := newLocalPair()
	m := model.NewRoot()
	var prog []string
	note := func(s string) {
		if len(prog) < 400 {
			prog = append(prog, s)
		}
	}
	init := gen.InitEdits()
	if err := safeUpdate(lp.S, init); err != nil {
		res.Violate("edit-failed", "init: "+err.Error(), "", nil)
		return
	}
	for i := range init {
		_ = m.Apply(&init[i])
	}
	_ = lp.deliver(lp.S, lp.P)
	applied := 0
	for s := 0; s < steps; s++ {
		if rng.Intn(100) < 10 {
			kind, err := lp.scar(rng, prof)
			res.AddStat("scars", 1)
			res.AddSet("scar_kinds", kind)
			note("SCAR " + kind)
			if err != nil {
				// a failing exchange is C01/C03/C09's business; stop this program
				res.AddStat("scar_exchange_failed_not_judged", 1)
				res.Notes = append(res.Notes, "scar failed: "+err.Error())
				break
			}
			m = model.FromDoc(lp.S.RootObject())
			if d := checkBoth(lp.S, m); d != "" {
				// the re-read model must trivially match; if not, clone != root (C08) or accessors disagree
				res.Violate("visible-state-inconsistent-after-remote-step", d, "", map[string]any{"seed": w.seed, "idx": idx, "program": prog})
				return
			}
			continue
		}
		conts := gen.Scan(lp.S.Root().Object, prof.MaxDepth)
		e := prof.Next(rng, conts, "subject")
		if e.Op == "arr.set" {
			// fence F-ARRSET-MOVED
			if c, err := resolveModel(m, e.Path); err == nil && e.I < len(c.Arr) && c.Arr[e.I].Moved {
				res.AddStat("guard_vetoes_arr_set_moved", 1)
				continue
			}
		}
		mb := cloneModel(m)
		if err := m.Apply(&e); err != nil {
			m = mb
			res.AddStat("calls_outside_model_domain", 1)
			continue
		}
		note(e.String())
		if err := safeUpdate(lp.S, []gen.Edit{e}); err != nil {
			res.Violate("valid-call-failed", fmt.Sprintf("call %d %s failed: %v", s, e.String(), err), "", map[string]any{"seed": w.seed, "idx": idx, "program": prog})
			return
		}
		applied++
		res.AddStat("calls_checked", 1)
		if strings.HasPrefix(e.Op, "tree.") {
			if t, ok := lp.S.RootObject().Get("tree").(*crdt.Tree); ok {
				if x := t.ToXML(); strings.Contains(x, "<b") || strings.Contains(x, "<i") {
					res.AddStat("calls_on_trees_with_inline_elements", 1)
				}
			}
		}
		res.AddSet("ops", e.Op)
		if d := checkBoth(lp.S, m); d != "" {
			eb, _ := json.Marshal(e)
			res.Violate("differs-from-reference-model", fmt.Sprintf("after call %d %s: %s", s, string(eb), d), "", map[string]any{"seed": w.seed, "idx": idx, "program": prog})
			return
		}
	}
	res.Hash = runner.HashOf(prog)
	res.Nontrivial = applied >= 5
	if idx%997 == 0 {
		n := len(prog)
		if n > 30 {
			n = 30
		}
		b, _ := json.Marshal(map[string]any{"family": "rand", "first_calls": prog[:n], "final": trunc400(lp.S.Marshal())})
		res.Sample = b
	}
}

func trunc400(s string) string {
	if len(s) > 400 {
		return s[:400] + "…"
	}
	return s
}

func resolveModel(m *model.Node, path []string) (*model.Node, error) {
	cur := m
	for _, seg := range path {
		switch cur.Kind {
		case "obj":
			c, ok := cur.Obj[seg]
			if !ok {
				return nil, model.ErrPath
			}
			cur = c
		case "arr":
			var i int
			if _, err := fmt.Sscanf(seg, "#%d", &i); err != nil || i < 0 || i >= len(cur.Arr) {
				return nil, model.ErrPath
			}
			cur = cur.Arr[i]
		default:
			return nil, model.ErrPath
		}
	}
	return cur, nil
}

func cloneModel(m *model.Node) *model.Node {
	if m == nil {
		return nil
	}
	c := *m
	if m.Obj != nil {
		c.Obj = map[string]*model.Node{}
		for k, v := range m.Obj {
			c.Obj[k] = cloneModel(v)
		}
	}
	if m.Arr != nil {
		c.Arr = make([]*model.Node, len(m.Arr))
		for i, v := range m.Arr {
			c.Arr[i] = cloneModel(v)
		}
	}
	c.Units = append([]uint16(nil), m.Units...)
	c.Attrs = append([]map[string]string(nil), m.Attrs...)
	if m.Seen != nil {
		c.Seen = map[string]bool{}
		for k := range m.Seen {
			c.Seen[k] = true
		}
	}
	if m.Tree != nil {
		c.Tree = cloneTree(m.Tree)
	}
	return &c
}

func cloneTree(t *model.TNode) *model.TNode {
	c := &model.TNode{Type: t.Type}
	if t.Attrs != nil {
		c.Attrs = map[string]string{}
		for k, v := range t.Attrs {
			c.Attrs[k] = v
		}
	}
	for _, it := range t.Items {
		if it.El != nil {
			c.Items = append(c.Items, model.TItem{El: cloneTree(it.El)})
		} else {
			c.Items = append(c.Items, it)
		}
	}
	return c
}

// ---- small-scope exhaustive ----

// alphabet returns every call of the reduced alphabet that is valid in state m.
func c07Alphabet(family string, m *model.Node) []gen.Edit {
	var out []gen.Edit
	// the container may be gone (an undo of the edit that created it): nothing to offer
	if k, ok := map[string]string{"text": "txt", "array": "arr", "tree": "tree"}[family]; ok {
		want := map[string]string{"text": "txt", "array": "arr", "tree": "tree"}[family]
		if c := m.Obj[k]; c == nil || c.Kind != want {
			return nil
		}
	}
	switch family {
	case "text":
		t := m.Obj["txt"]
		bs := textBoundaries(t.Units)
		if len(t.Units) <= 4 {
			for _, at := range bs {
				out = append(out, gen.Edit{Op: "txt.edit", Path: []string{"txt"}, I: at, J: at, S: "x"})
				out = append(out, gen.Edit{Op: "txt.edit", Path: []string{"txt"}, I: at, J: at, S: "😀", A: map[string]string{"b": "1"}})
			}
		}
		for i, a := range bs {
			for _, b := range bs[i+1:] {
				if b-a <= 3 {
					out = append(out, gen.Edit{Op: "txt.edit", Path: []string{"txt"}, I: a, J: b})
					out = append(out, gen.Edit{Op: "txt.style", Path: []string{"txt"}, I: a, J: b, A: map[string]string{"c": "r"}})
				}
				if b-a <= 2 && len(t.Units) <= 4 {
					out = append(out, gen.Edit{Op: "txt.edit", Path: []string{"txt"}, I: a, J: b, S: "yz"})
				}
			}
		}
	case "array":
		a := m.Obj["arr"]
		n := len(a.Arr)
		p := []string{"arr"}
		if n <= 4 {
			out = append(out, gen.Edit{Op: "arr.add", Path: p, V: &gen.Val{T: "int", I: int64(100 + n)}})
			for i := 0; i < n; i++ {
				out = append(out, gen.Edit{Op: "arr.ins", Path: p, I: i, V: &gen.Val{T: "str", S: "s"}})
			}
		}
		for i := 0; i < n; i++ {
			out = append(out, gen.Edit{Op: "arr.del", Path: p, I: i})
			out = append(out, gen.Edit{Op: "arr.front", Path: p, I: i})
			out = append(out, gen.Edit{Op: "arr.last", Path: p, I: i})
			if !a.Arr[i].Moved {
				out = append(out, gen.Edit{Op: "arr.set", Path: p, I: i, V: &gen.Val{T: "int", I: 7}})
			}
			for j := 0; j < n; j++ {
				if i != j {
					out = append(out, gen.Edit{Op: "arr.move", Path: p, I: i, J: j})
					out = append(out, gen.Edit{Op: "arr.before", Path: p, I: i, J: j})
				}
			}
		}
	case "tree":
		t := m.Obj["tree"].Tree
		p := []string{"tree"}
		pos := 0
		nblocks := 0
		for _, it := range t.Items {
			if it.El == nil {
				pos++
				continue
			}
			nblocks++
			size := it.El.Len() + 2
			txt := it.El.Len()
			onlyText := true
			for _, c := range it.El.Items {
				if c.El != nil {
					onlyText = false
				}
			}
			out = append(out, gen.Edit{Op: "tree.edit", Path: p, I: pos, J: pos + size})
			out = append(out, gen.Edit{Op: "tree.style", Path: p, I: pos, J: pos + size, A: map[string]string{"b": "1"}})
			out = append(out, gen.Edit{Op: "tree.rmstyle", Path: p, I: pos, J: pos + size, Keys: []string{"b"}})
			if onlyText {
				for o := 0; o <= txt; o++ {
					if txt <= 3 {
						out = append(out, gen.Edit{Op: "tree.edit", Path: p, I: pos + 1 + o, J: pos + 1 + o, T: []gen.TN{{Type: "text", Text: "q"}}})
					}
					for o2 := o + 1; o2 <= txt && o2-o <= 2; o2++ {
						out = append(out, gen.Edit{Op: "tree.edit", Path: p, I: pos + 1 + o, J: pos + 1 + o2})
					}
				}
			}
			pos += size
		}
		if nblocks <= 3 {
			acc := 0
			for _, it := range append(append([]model.TItem(nil), t.Items...), model.TItem{}) {
				out = append(out, gen.Edit{Op: "tree.edit", Path: p, I: acc, J: acc, T: []gen.TN{{Type: "p", Kids: []gen.TN{{Type: "text", Text: "n"}}}}})
				if it.El != nil {
					acc += it.El.Len() + 2
				} else {
					acc++
				}
			}
		}
	}
	return out
}

func textBoundaries(u []uint16) []int {
	var out []int
	for i := 0; i <= len(u); i++ {
		if i > 0 && i < len(u) && u[i-1] >= 0xD800 && u[i-1] <= 0xDBFF && u[i] >= 0xDC00 && u[i] <= 0xDFFF {
			continue
		}
		out = append(out, i)
	}
	return out
}

func c07Base(family string) []gen.Edit {
	switch family {
	case "text":
		return []gen.Edit{{Op: "obj.set", K: "txt", V: &gen.Val{T: "text"}},
			{Op: "txt.edit", Path: []string{"txt"}, I: 0, J: 0, S: "ab"},
			{Op: "txt.edit", Path: []string{"txt"}, I: 1, J: 1, S: "😀"}}
	case "array":
		return []gen.Edit{{Op: "obj.set", K: "arr", V: &gen.Val{T: "arr"}},
			{Op: "arr.add", Path: []string{"arr"}, V: &gen.Val{T: "int", I: 1}},
			{Op: "arr.add", Path: []string{"arr"}, V: &gen.Val{T: "int", I: 2}},
			{Op: "arr.add", Path: []string{"arr"}, V: &gen.Val{T: "int", I: 3}}}
	default:
		return []gen.Edit{{Op: "obj.set", K: "tree", V: &gen.Val{T: "tree", S: "ab"}},
			{Op: "tree.edit", Path: []string{"tree"}, I: 4, J: 4, T: []gen.TN{{Type: "p", Kids: []gen.TN{{Type: "text", Text: "c"}}}}}}
	}
}

func (w *c07Worker) runExhaustive(res *runner.CaseResult, family string) {
	depth := 3
	var rec func(prefix []gen.Edit, d int)
	stop := false
	rec = func(prefix []gen.Edit, d int) {
		if stop {
			return
		}
		// rebuild document and model from scratch for this prefix
		doc := document.New(key.Key("c07-exh"))
		doc.SetActor(actorA)
		m := model.NewRoot()
		all := append(append([]gen.Edit(nil), c07Base(family)...), prefix...)
		for i := range all {
			if err := m.Apply(&all[i]); err != nil {
				return
			}
			if err := safeUpdate(doc, []gen.Edit{all[i]}); err != nil {
				res.Violate("valid-call-failed", fmt.Sprintf("exhaustive %s: %v after %v", family, err, describe(all[:i+1])), "", map[string]any{"family": family, "program": all})
				stop = true
				return
			}
		}
		res.AddStat("exhaustive_programs", 1)
		res.AddStat("calls_checked", int64(len(prefix)))
		if d := checkBoth(doc, m); d != "" {
			res.Violate("differs-from-reference-model", fmt.Sprintf("exhaustive %s program %v: %s", family, describe(all), d), "", map[string]any{"family": family, "program": all})
			stop = true
			return
		}
		if d == depth {
			return
		}
		for _, e := range c07Alphabet(family, m) {
			rec(append(append([]gen.Edit(nil), prefix...), e), d+1)
		}
	}
	rec(nil, 0)
	res.Hash = "exh-" + family
	res.Nontrivial = true
	b, _ := json.Marshal(map[string]any{"family": "exh-" + family, "programs": res.Stats["exhaustive_programs"], "depth": depth})
	res.Sample = b
}

func describe(es []gen.Edit) []string {
	var out []string
	for _, e := range es {
		out = append(out, e.String())
	}
	return out
}

func (w *c07Worker) Run(idx int) runner.CaseResult {
	res := runner.CaseResult{Case: fmt.Sprintf("c07-%d", idx)}
	switch idx {
	case 0:
		w.runExhaustive(&res, "text")
	case 1:
		w.runExhaustive(&res, "array")
	case 2:
		w.runExhaustive(&res, "tree")
	default:
		w.runRandom(&res, idx)
	}
	return res
}

func (w *c07Worker) Replay(data json.RawMessage) runner.CaseResult {
	res := runner.CaseResult{Case: "replay"}
	var rp struct {
		Seed   int64      `json:"seed"`
		Idx    int        `json:"idx"`
		Family string     `json:"family"`
		Prog   []gen.Edit `json:"program"`
	}
	_ = json.Unmarshal(data, &rp)
	if rp.Family != "" {
		doc := document.New(key.Key("c07-exh"))
		doc.SetActor(actorA)
		m := model.NewRoot()
		for i := range rp.Prog {
			if err := m.Apply(&rp.Prog[i]); err != nil {
				res.Inconclusive = "program not valid for the model"
				return res
			}
			if err := safeUpdate(doc, []gen.Edit{rp.Prog[i]}); err != nil {
				res.Violate("valid-call-failed", err.Error(), "", rp)
				return res
			}
			if d := checkBoth(doc, m); d != "" {
				res.Violate("differs-from-reference-model", d, "", rp)
				return res
			}
		}
		return res
	}
	old := w.seed
	w.seed = rp.Seed
	w.runRandom(&res, rp.Idx)
	w.seed = old
	return res
}
