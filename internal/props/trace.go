package props

import (
	"encoding/json"
	"fmt"
	"os"
	"strings"

	"github.com/yorkie-team/yorkie/pkg/document/crdt"

	"verif/internal/boot"
	"verif/internal/replica"
	"verif/internal/sim"
)

// TraceFile replays a sim history printing every replica after every step
// (debugging aid). VERIF_TRACE_GCOFF=1 runs the GC-off twin configuration.
func TraceFile(path string) int {
	b, err := os.ReadFile(path)
	if err != nil {
		fmt.Fprintln(os.Stderr, err)
		return 2
	}
	var doc struct {
		Replay sim.History `json:"replay"`
	}
	if err := json.Unmarshal(b, &doc); err != nil {
		fmt.Fprintln(os.Stderr, err)
		return 2
	}
	h := doc.Replay
	if os.Getenv("VERIF_TRACE_GCOFF") == "1" {
		h.Cfg.LocalGCOff, h.Cfg.ServerGCOff = true, true
	}
	sw, err := newSimWorker("quick", 1, boot.Options{})
	if err != nil {
		fmt.Fprintln(os.Stderr, err)
		return 2
	}
	defer sw.Close()
	proj, _ := sw.project(h.Cfg.Snap)
	sw.setServerGC(h.Cfg.ServerGCOff)
	w := sim.NewWorld(sw.env, proj, h.Cfg, "trace")
	obs := &packObs{}
	w.Obs = obs
	w.AfterStep = func(w *sim.World, st sim.Step, r *replica.Replica) {
		fmt.Printf("--- %d %s   (snapshots so far: %d)\n", len(w.Events), st.String(), obs.snapshots)
		for _, rr := range w.Reps {
			if rr.Doc == nil {
				continue
			}
			fmt.Printf("   %s[%s] cp=%s garbage=%d %s\n", rr.Name, fmt.Sprint(rr.Doc.Status()), rr.Doc.Checkpoint().String(), rr.Doc.GarbageLen(), rr.Doc.Marshal())
			for k, el := range rr.Doc.RootObject().Members() {
				switch v := el.(type) {
				case *crdt.Array:
					var sb strings.Builder
					for _, n := range v.AllRGANodes() {
						e := "dead"
						if n.Element() != nil {
							e = n.Element().Marshal()
							if n.Element().RemovedAt() != nil {
								e += "(rm)"
							}
						}
						mv := ""
						if n.PositionMovedAt() != nil {
							mv = " mv=" + n.PositionMovedAt().ToTestString()
						}
						fmt.Fprintf(&sb, " [%s pos=%s%s]", e, n.PositionCreatedAt().ToTestString(), mv)
					}
					fmt.Printf("      %s:%s\n", k, sb.String())
				case *crdt.Text:
					fmt.Printf("      %s: %s\n", k, v.ToTestString())
				}
			}
		}
	}
	w.OnQuiesce = func(w *sim.World, att []*replica.Replica) {}
	w.RunHistory(h)
	if log, err := w.ServerLog(); err == nil {
		for _, row := range log {
			fmt.Printf("LOG seq=%d actor=%s cseq=%d lamport=%d vv=%s ops=%d pres=%v\n", row.ServerSeq, row.ActorID, row.ClientSeq, row.Lamport, row.VersionVector.Marshal(), len(row.Operations), row.PresenceChange != nil)
		}
	}
	for _, rr := range w.Reps {
		if rr.Doc != nil {
			fmt.Printf("REP %s actor=%s vv=%s\n", rr.Name, rr.ID.String(), rr.Doc.VersionVector().Marshal())
		}
	}
	for _, f := range w.Fail {
		fmt.Printf("FAIL %s: %s\n", f.Kind, f.Detail)
	}
	return 0
}
