package props

import (
	"fmt"
	"math/rand"
	"sync"
	"time"

	"github.com/yorkie-team/yorkie/api/types"
	"github.com/yorkie-team/yorkie/pkg/cache"

	"verif/internal/runner"
)

// lru family of C20: the two cache types every server-side cache is made of
// (pkg/cache.LRU, sharded, and pkg/cache.LRUWithExpires) are driven directly with the
// read-through / write-through / invalidate protocol their users follow, against a plain map
// as the store. A cache may forget whatever it likes; what it must never do is answer with
// something the store would not answer.

type kvCache[K comparable] interface {
	Get(K) (int64, bool)
	Add(K, int64) bool
	Contains(K) bool
	Peek(K) (int64, bool)
	Remove(K) bool
	Purge()
	Len() int
	Stats() *cache.Stats
}

type lruDriver[K comparable] struct {
	c       kvCache[K]
	store   map[K]int64 // the underlying store
	cached  map[K]bool  // keys the cache MAY hold (added since their last remove / purge)
	gets    int64
	hits    int64
	keys    []K
	version int64
}

func (d *lruDriver[K]) step(rng *rand.Rand, res *runner.CaseResult) string {
	k := d.keys[rng.Intn(len(d.keys))]
	switch x := rng.Intn(100); {
	case x < 40: // read through
		v, ok := d.c.Get(k)
		d.gets++
		if ok {
			d.hits++
			res.AddStat("lru_hits_checked", 1)
			want, in := d.store[k]
			if !d.cached[k] {
				return fmt.Sprintf("Get(%v) answered %d although the key was removed / purged / never added", k, v)
			}
			if !in || v != want {
				return fmt.Sprintf("Get(%v) answered %d, the store holds %d (present=%v)", k, v, want, in)
			}
		} else if want, in := d.store[k]; in {
			d.c.Add(k, want)
			d.cached[k] = true
			if v, ok := d.c.Peek(k); !ok || v != want {
				return fmt.Sprintf("Peek(%v) right after Add(%v,%d) answered (%d,%v)", k, k, want, v, ok)
			}
		}
	case x < 65: // write through
		d.version++
		d.store[k] = d.version
		d.c.Add(k, d.version)
		d.cached[k] = true
		if v, ok := d.c.Get(k); !ok || v != d.version {
			return fmt.Sprintf("Get(%v) right after Add(%v,%d) answered (%d,%v)", k, k, d.version, v, ok)
		}
		d.gets++
		d.hits++
	case x < 82: // write + invalidate
		d.version++
		d.store[k] = d.version
		d.c.Remove(k)
		d.cached[k] = false
		if d.c.Contains(k) {
			return fmt.Sprintf("Contains(%v) is true right after Remove(%v)", k, k)
		}
		if v, ok := d.c.Peek(k); ok {
			return fmt.Sprintf("Peek(%v) answered %d right after Remove(%v)", k, v, k)
		}
	case x < 90: // delete from the store + invalidate
		delete(d.store, k)
		d.c.Remove(k)
		d.cached[k] = false
	case x < 94:
		d.c.Purge()
		for k := range d.cached {
			d.cached[k] = false
		}
		if n := d.c.Len(); n != 0 {
			return fmt.Sprintf("Len() = %d right after Purge()", n)
		}
	default: // peek / contains must agree with each other and with the store
		v, ok := d.c.Peek(k)
		if ok != d.c.Contains(k) {
			return fmt.Sprintf("Peek(%v) present=%v but Contains says %v", k, ok, !ok)
		}
		if ok {
			res.AddStat("lru_hits_checked", 1)
			if want, in := d.store[k]; !d.cached[k] || !in || v != want {
				return fmt.Sprintf("Peek(%v) answered %d, the store holds %d (present=%v, may be cached=%v)", k, v, want, in, d.cached[k])
			}
		}
	}
	may := 0
	for _, c := range d.cached {
		if c {
			may++
		}
	}
	if n := d.c.Len(); n > may {
		return fmt.Sprintf("Len() = %d but only %d keys were added since their last removal", n, may)
	}
	return ""
}

func (d *lruDriver[K]) statsAgree() string {
	// hits and misses are the users' only view of the cache's effectiveness
	st := d.c.Stats()
	if st == nil {
		return ""
	}
	if st.Hits() != d.hits || st.Hits()+st.Misses() != d.gets {
		return fmt.Sprintf("Stats: hits=%d misses=%d, observed %d hits in %d Get calls", st.Hits(), st.Misses(), d.hits, d.gets)
	}
	return ""
}

func (w *c20Worker) runLRU(res *runner.CaseResult, idx int) {
	rng := caseRng(w.seed^0xc20e, idx)
	replay := map[string]any{"family": "lru", "seed": w.seed, "idx": idx}
	nkeys := 3 + rng.Intn(60)
	size := 1 + rng.Intn(80)
	steps := 200 + rng.Intn(800)
	flavour := (idx / 10) % 4
	res.AddSet("lru_flavours", fmt.Sprint(flavour))
	var fail string
	switch flavour {
	case 0, 1: // sharded LRU with the struct key the snapshot cache uses
		c, err := cache.NewLRU[types.DocRefKey, int64](size, "verif")
		if err != nil {
			res.Inconclusive = err.Error()
			return
		}
		d := &lruDriver[types.DocRefKey]{c: c, store: map[types.DocRefKey]int64{}, cached: map[types.DocRefKey]bool{}}
		for i := 0; i < nkeys; i++ {
			d.keys = append(d.keys, types.DocRefKey{ProjectID: types.ID(fmt.Sprintf("p%d", i%3)), DocID: types.ID(fmt.Sprintf("d%d", i/3))})
		}
		for s := 0; s < steps && fail == ""; s++ {
			fail = d.step(rng, res)
		}
		if fail == "" {
			fail = d.statsAgree()
		}
	case 2: // expirable LRU, expiry far away
		c, err := cache.NewLRUWithExpires[string, int64](size, time.Hour, "verif")
		if err != nil {
			res.Inconclusive = err.Error()
			return
		}
		d := &lruDriver[string]{c: c, store: map[string]int64{}, cached: map[string]bool{}}
		for i := 0; i < nkeys; i++ {
			d.keys = append(d.keys, fmt.Sprintf("k%d", i))
		}
		for s := 0; s < steps && fail == ""; s++ {
			fail = d.step(rng, res)
		}
		if fail == "" {
			fail = d.statsAgree()
		}
	case 3: // expirable LRU with a short expiry: nothing older than the expiry is ever answered
		ttl := 20 * time.Millisecond
		c, err := cache.NewLRUWithExpires[string, int64](64, ttl, "verif")
		if err != nil {
			res.Inconclusive = err.Error()
			return
		}
		for round := 0; round < 3 && fail == ""; round++ {
			n := 1 + rng.Intn(40)
			for i := 0; i < n; i++ {
				c.Add(fmt.Sprintf("k%d", i), int64(round*1000+i))
			}
			// a lower bound only: a loaded machine sleeps longer, never shorter
			time.Sleep(ttl + 15*time.Millisecond)
			for i := 0; i < n; i++ {
				if v, ok := c.Get(fmt.Sprintf("k%d", i)); ok {
					fail = fmt.Sprintf("Get(k%d) answered %d more than %v after it was added (expiry %v)", i, v, ttl+15*time.Millisecond, ttl)
					break
				}
				res.AddStat("lru_expired_reads_checked", 1)
			}
		}
	}
	if fail != "" {
		res.Violate("lru-cache-answer-differs-from-store", fail, "", replay)
		return
	}
	res.AddStat("lru_steps", int64(steps))
	res.Hash = runner.HashOf([]int{idx, nkeys, size, steps, flavour})
	res.Nontrivial = true
}

// runLRUParallel: 8 goroutines, each the only writer of its own keys (so each knows what
// the store holds for them), all keys spread over the same shards; under the race detector.
func (w *c20Worker) runLRUParallel(res *runner.CaseResult, idx int) {
	rng := caseRng(w.seed^0xc20f, idx)
	replay := map[string]any{"family": "lru-parallel", "seed": w.seed, "idx": idx}
	size := 8 + rng.Intn(64)
	var c kvCache[types.DocRefKey]
	if idx%2 == 0 {
		cc, err := cache.NewLRU[types.DocRefKey, int64](size, "verif")
		if err != nil {
			res.Inconclusive = err.Error()
			return
		}
		c = cc
	} else {
		cc, err := cache.NewLRUWithExpires[types.DocRefKey, int64](size, time.Hour, "verif")
		if err != nil {
			res.Inconclusive = err.Error()
			return
		}
		c = cc
	}
	const G = 8
	var wg sync.WaitGroup
	fails := make([]string, G)
	checked := make([]int64, G)
	seeds := make([]int64, G)
	for g := range seeds {
		seeds[g] = rng.Int63()
	}
	for g := 0; g < G; g++ {
		wg.Add(1)
		go func(g int) {
			defer wg.Done()
			r := rand.New(rand.NewSource(seeds[g]))
			own := map[types.DocRefKey]int64{}
			var keys []types.DocRefKey
			for i := 0; i < 12; i++ {
				keys = append(keys, types.DocRefKey{ProjectID: types.ID(fmt.Sprintf("p%d", g)), DocID: types.ID(fmt.Sprintf("d%d", i))})
			}
			for s := 0; s < 600; s++ {
				k := keys[r.Intn(len(keys))]
				switch x := r.Intn(10); {
				case x < 4:
					if v, ok := c.Get(k); ok {
						checked[g]++
						if want, in := own[k]; !in || v != want {
							fails[g] = fmt.Sprintf("goroutine %d: Get(%v) answered %d, last written %d (present=%v)", g, k, v, want, in)
							return
						}
					}
				case x < 8:
					v := int64(g)<<32 | int64(s)
					own[k] = v
					c.Add(k, v)
				case x < 9:
					delete(own, k)
					c.Remove(k)
					if c.Contains(k) {
						fails[g] = fmt.Sprintf("goroutine %d: Contains(%v) true right after its only writer removed it", g, k)
						return
					}
				default:
					_ = c.Len()
				}
			}
		}(g)
	}
	wg.Wait()
	for g := 0; g < G; g++ {
		res.AddStat("lru_parallel_hits_checked", checked[g])
		if fails[g] != "" {
			res.Violate("lru-cache-answer-differs-from-store", fails[g], "", replay)
			return
		}
	}
	res.Hash = runner.HashOf([]int64{int64(idx), seeds[0]})
	res.Nontrivial = true
}
