package props

import (
	"encoding/json"
	"fmt"
	"os"
	"testing"

	"verif/internal/runner"
)

func TestC09Dbg(t *testing.T) {
	f := os.Getenv("C09_REPLAY")
	if f == "" {
		t.Skip()
	}
	b, _ := os.ReadFile(f)
	var d struct {
		Replay json.RawMessage `json:"replay"`
	}
	_ = json.Unmarshal(b, &d)
	os.Setenv("C09_DEBUG", "1")
	w := &c09Worker{tier: "quick"}
	res := w.Replay(d.Replay)
	for _, v := range res.Viol {
		fmt.Println(v.Kind, v.Detail)
	}
	_ = runner.CaseResult{}
}

func init() {
	if os.Getenv("C09_DEBUG_FULL") != "" {
		c09DebugFull = true
	}
}
