package props

import (
	"encoding/json"
	"fmt"
	"math/rand"
	"os"
	"runtime"
	"sort"
	"strings"
	gotime "time"

	"google.golang.org/protobuf/proto"
	"google.golang.org/protobuf/reflect/protoreflect"

	"github.com/yorkie-team/yorkie/api/converter"
	"github.com/yorkie-team/yorkie/api/types"
	api "github.com/yorkie-team/yorkie/api/yorkie/v1"
	"github.com/yorkie-team/yorkie/pkg/document"
	"github.com/yorkie-team/yorkie/pkg/document/change"
	"github.com/yorkie-team/yorkie/pkg/document/crdt"
	"github.com/yorkie-team/yorkie/pkg/document/operations"
	"github.com/yorkie-team/yorkie/pkg/document/time"
	"github.com/yorkie-team/yorkie/pkg/document/yson"
	"github.com/yorkie-team/yorkie/pkg/key"
	"github.com/yorkie-team/yorkie/server/backend/database"

	"verif/internal/gen"
	"verif/internal/runner"
)

type c09 struct{}

func init() { register(c09{}) }

func (c09) ID() string    { return "C09" }
func (c09) Level() string { return "exploration" }
func (c09) Rule() string {
	return "three case families. (rpc) on the live server an activated, attached hostile client posts structurally mutated change " +
		"packs (cleared/duplicated fields, extreme numbers) by raw HTTP to PushPullChanges: every request must be answered (a " +
		"dropped connection = panicking handler and a timeout = hang are violations), a client of another document must be " +
		"unaffected; what an ACCEPTED hostile change does to healthy clients of the same document is identified as recorded " +
		"finding F-HOSTILE-CHANGE-STORED. (lossless) two in-process authors edit concurrently (C01 alphabet + undo/redo, so that restore spans, " +
		"re-tombstoning, split tickets, moves, styles, dedup counters occur) and exchange changes; every change is delivered to " +
		"three follower documents through three channels - the in-memory change objects (never serialised), the protobuf wire " +
		"codec (ToChangePack -> bytes -> FromChangePack), and the storage codec (database.NewFromChange -> ToChange) - and a " +
		"fourth follower is periodically RE-CREATED from SnapshotToBytes -> CompressSnapshot -> DecompressSnapshot -> " +
		"BytesToSnapshot of the wire follower and then fed on. After every delivered change all followers must agree in Marshal(), " +
		"GarbageLen() and a structural digest (tickets, moved/removed stamps, text node ids and insPrev links, array position " +
		"slots, tree node ids / insPrev / merge provenance, attribute nodes), i.e. decoded values must BEHAVE identically under " +
		"the later changes; version vectors round-trip through Bytes/FromBytes. (hostile) the packs and snapshots harvested from " +
		"those histories are mutated (bit flips, truncation at every length for small inputs, splices, structural protobuf " +
		"mutations: cleared oneofs, dropped tickets, swapped ids, huge lengths/depths) and fed to FromChangePack, BytesToSnapshot/" +
		"Object/Array/Tree, VersionVectorFromBytes, ValueFromBytes, CounterValueFromBytes, DecompressSnapshot, " +
		"ChangeInfo.ToChange, PresenceChangeFromBytes and yson.Unmarshal. Oracle: no panic, returns within a watchdog, allocates " +
		"less than 512 MiB. Non-trivial (lossless) = >=10 changes delivered incl. >=1 undo/redo or snapshot fork; (hostile) = " +
		">=1000 mutated inputs decoded."
}
func (c09) Assumptions() []string {
	return []string{"in-process, no server (stage 2 - hostile packs through the live RPC - is not built)",
		"a watchdog hit is re-measured in isolation before it counts", "known-finding fences of the array/RGA findings are not needed here: all followers see the same change order"}
}
func (c09) NumCases(tier string, _ int64) int {
	if tier == "thorough" {
		return 60000
	}
	return 4000
}
func (c09) Exhaustive(string) bool { return false }
func (c09) Floors(string) []runner.Floor {
	return []runner.Floor{{Stat: "changes_delivered_3_ways", Min: 20000}, {Stat: "hostile_inputs", Min: 200000}, {Stat: "snapshot_forks", Min: 1000}, {Stat: "hostile_packs_sent_to_server", Min: 1000}, {Stat: "large_snapshots_round_tripped", Min: 4}}
}

type c09Worker struct {
	tier string
	seed int64
}

func (c09) NewWorker(tier string, seed int64) (runner.Worker, error) {
	return &c09Worker{tier: tier, seed: seed}, nil
}
func (w *c09Worker) Close() {}

// ---- structural digest ----

func tk(t *time.Ticket) string {
	if t == nil {
		return "-"
	}
	return t.Key()
}

// digestElem writes every ticket that takes part in a later merge decision.
// An element's own movedAt is not printed raw: for array members it is inert
// (the slot's position register decides; nothing reads elem.MovedAt() there,
// and an undo-restored array element legitimately keeps a stale one in the
// author's memory that no encoding carries); for object members the only
// reader is PositionedAt() of the member that currently HOLDS the key, which is
// the member with the greatest PositionedAt - that anchor is printed per key.
// Demanding raw equality would be stricter than the property (a member that
// never won carries movedAt=nil on one channel and movedAt=createdAt on
// another: same anchor).
func digestElem(e crdt.Element, sb *strings.Builder) {
	fmt.Fprintf(sb, "<%s c=%s r=%s>", kindOfElem(e), tk(e.CreatedAt()), tk(e.RemovedAt()))
	switch v := e.(type) {
	case *crdt.Object:
		nodes := v.RHTNodes()
		sort.Slice(nodes, func(i, j int) bool {
			return nodes[i].Key()+nodes[i].Element().CreatedAt().Key() < nodes[j].Key()+nodes[j].Element().CreatedAt().Key()
		})
		anchors := map[string]*time.Ticket{}
		for _, n := range nodes {
			fmt.Fprintf(sb, "{%s:", n.Key())
			digestElem(n.Element(), sb)
			sb.WriteString("}")
			if p := crdt.PositionedAt(n.Element()); anchors[n.Key()] == nil || p.After(anchors[n.Key()]) {
				anchors[n.Key()] = p
			}
		}
		var ks []string
		for k := range anchors {
			ks = append(ks, k)
		}
		sort.Strings(ks)
		for _, k := range ks {
			fmt.Fprintf(sb, "|%s held@%s", k, tk(anchors[k]))
		}
	case *crdt.Array:
		for _, n := range v.AllRGANodes() {
			fmt.Fprintf(sb, "[pos=%s pm=%s pr=%s ", tk(n.PositionCreatedAt()), tk(n.PositionMovedAt()), tk(n.RemovedAt()))
			if n.Element() != nil {
				digestElem(n.Element(), sb)
			}
			sb.WriteString("]")
		}
	case *crdt.Text:
		for _, n := range v.Nodes() {
			ip := "-"
			if n.InsPrevID() != nil {
				ip = n.InsPrevID().ToTestString()
			}
			fmt.Fprintf(sb, "(%s r=%s ip=%s %q", n.ID().ToTestString(), tk(n.RemovedAt()), ip, n.Value().Value())
			if n.Value().Attrs() != nil {
				as := n.Value().Attrs().Nodes()
				sort.Slice(as, func(i, j int) bool { return as[i].Key() < as[j].Key() })
				for _, a := range as {
					fmt.Fprintf(sb, " %s=%q@%s/%v", a.Key(), a.Value(), tk(a.UpdatedAt()), a.IsRemoved())
				}
			}
			sb.WriteString(")")
		}
	case *crdt.Counter:
		fmt.Fprintf(sb, "cnt=%s hll=%d", v.Marshal(), len(v.HLLBytes()))
	case *crdt.Primitive:
		sb.WriteString(v.Marshal())
	case *crdt.Tree:
		for _, n := range v.Nodes() {
			ip, in, mf := "-", "-", "-"
			if n.InsPrevID != nil {
				ip = fmt.Sprintf("%s:%d", tk(n.InsPrevID.CreatedAt), n.InsPrevID.Offset)
			}
			if n.InsNextID != nil {
				in = fmt.Sprintf("%s:%d", tk(n.InsNextID.CreatedAt), n.InsNextID.Offset)
			}
			if n.MergedFrom != nil {
				mf = fmt.Sprintf("%s:%d@%s", tk(n.MergedFrom.CreatedAt), n.MergedFrom.Offset, tk(n.MergedAt))
			}
			fmt.Fprintf(sb, "(%s:%d %s r=%s ip=%s in=%s mf=%s %q", tk(n.ID().CreatedAt), n.ID().Offset, n.Type(), tk(n.RemovedAt()), ip, in, mf, n.Value)
			if n.Attrs != nil {
				as := n.Attrs.Nodes()
				sort.Slice(as, func(i, j int) bool { return as[i].Key() < as[j].Key() })
				for _, a := range as {
					fmt.Fprintf(sb, " %s=%q@%s/%v", a.Key(), a.Value(), tk(a.UpdatedAt()), a.IsRemoved())
				}
			}
			sb.WriteString(")")
		}
	}
}

func kindOfElem(e crdt.Element) string {
	switch e.(type) {
	case *crdt.Object:
		return "obj"
	case *crdt.Array:
		return "arr"
	case *crdt.Text:
		return "txt"
	case *crdt.Counter:
		return "cnt"
	case *crdt.Tree:
		return "tree"
	}
	return "prim"
}

// tombstones counts what a walk of the structure finds removed, by kind.
func tombstones(d *document.Document) string {
	c := map[string]int{}
	ids := map[string]int{}
	var walk func(e crdt.Element, underRemoved bool)
	walk = func(e crdt.Element, underRemoved bool) {
		rem := underRemoved || e.RemovedAt() != nil
		if rem {
			c["elements"]++
		}
		switch v := e.(type) {
		case *crdt.Object:
			for _, n := range v.RHTNodes() {
				walk(n.Element(), rem)
			}
		case *crdt.Array:
			for _, n := range v.AllRGANodes() {
				if n.Element() == nil {
					c["dead_slots"]++
				} else {
					walk(n.Element(), rem)
				}
			}
		case *crdt.Text:
			for _, n := range v.Nodes() {
				if n.RemovedAt() != nil {
					c["text_nodes"]++
				}
				if n.Value().Attrs() != nil {
					for _, a := range n.Value().Attrs().Nodes() {
						if a.IsRemoved() {
							c["text_attrs"]++
							ids[a.IDString()]++
						}
					}
				}
			}
		case *crdt.Tree:
			for _, n := range v.Nodes() {
				if n.RemovedAt() != nil {
					c["tree_nodes"]++
				}
				if n.Attrs != nil {
					for _, a := range n.Attrs.Nodes() {
						if a.IsRemoved() {
							c["tree_attrs"]++
							ids[a.IDString()]++
						}
					}
				}
			}
		}
	}
	walk(d.RootObject(), false)
	for _, n := range ids {
		if n > 1 {
			c["attr_tombstones_sharing_an_id"] += n
		}
	}
	b, _ := json.Marshal(c)
	return string(b)
}

func digestDoc(d *document.Document) string {
	var sb strings.Builder
	digestElem(d.RootObject(), &sb)
	return sb.String()
}

// ---- channels ----

func viaWire(cs []*change.Change, k key.Key) ([]*change.Change, []byte, error) {
	pack := change.NewPack(k, change.InitialCheckpoint, cs, time.NewVersionVector(), nil)
	pb, err := converter.ToChangePack(pack)
	if err != nil {
		return nil, nil, err
	}
	b, err := proto.Marshal(pb)
	if err != nil {
		return nil, nil, err
	}
	var pb2 api.ChangePack
	if err := proto.Unmarshal(b, &pb2); err != nil {
		return nil, nil, err
	}
	p2, err := converter.FromChangePack(&pb2)
	if err != nil {
		return nil, nil, err
	}
	return p2.Changes, b, nil
}

func viaStore(cs []*change.Change) ([]*change.Change, error) {
	var out []*change.Change
	for _, c := range cs {
		info, err := database.NewFromChange(types.DocRefKey{ProjectID: "000000000000000000000001", DocID: "000000000000000000000002"}, c)
		if err != nil {
			return nil, err
		}
		// the row as the memory / Mongo stores keep it: operations as bytes, presence as struct
		c2, err := info.ToChange()
		if err != nil {
			return nil, err
		}
		out = append(out, c2)
	}
	return out, nil
}

func forkFromSnapshot(src *document.Document) (*document.Document, []byte, error) {
	b, err := converter.SnapshotToBytes(src.RootObject(), src.AllPresences())
	if err != nil {
		return nil, nil, err
	}
	cb, err := database.CompressSnapshot(b)
	if err != nil {
		return nil, nil, err
	}
	db, err := database.DecompressSnapshot(cb)
	if err != nil {
		return nil, nil, err
	}
	vv := src.VersionVector()
	vb, err := vv.Bytes()
	if err != nil {
		return nil, nil, err
	}
	vv2, err := time.VersionVectorFromBytes(vb)
	if err != nil {
		return nil, nil, err
	}
	if !vv2.Equal(vv) {
		return nil, nil, fmt.Errorf("version vector %s decodes as %s", vv.Marshal(), vv2.Marshal())
	}
	idoc, err := document.NewInternalDocumentFromSnapshot(src.Key(), src.Checkpoint().ServerSeq, src.InternalDocument().Lamport(), vv2, db)
	if err != nil {
		return nil, nil, err
	}
	return idoc.ToDocument(), db, nil
}

var corpusPacks, corpusSnaps [][]byte

func harvest(dst *[][]byte, b []byte) {
	if len(*dst) < 400 && len(b) < 4096 {
		*dst = append(*dst, append([]byte(nil), b...))
	}
}

// c09Step is one recorded step of a lossless case; histories are replayed from
// these, never regenerated.
type c09Step struct {
	W string    `json:"w,omitempty"` // A | B
	T string    `json:"t"`           // edit | undo | redo | deliver | fork
	E *gen.Edit `json:"e,omitempty"`
}

func (s c09Step) String() string {
	if s.E != nil {
		return s.W + " " + s.E.String()
	}
	return strings.TrimSpace(s.W + " " + s.T)
}

type c09Replay struct {
	Family   string    `json:"family"`
	Seed     int64     `json:"seed"`
	Idx      int       `json:"idx"`
	Steps    []c09Step `json:"steps,omitempty"`
	Unfenced bool      `json:"unfenced,omitempty"`
	Decoder  string    `json:"decoder,omitempty"`
	Hex      string    `json:"input_hex,omitempty"`
}

// carriesDedupState reports whether an operation ships a dedup counter that
// already counted something (fence of F-DEDUP-HLL-OPS: the simple element
// encoding has no field for the HyperLogLog registers).
func carriesDedupState(cs []*change.Change) bool {
	var has func(e crdt.Element) bool
	has = func(e crdt.Element) bool {
		switch v := e.(type) {
		case *crdt.Counter:
			return v.IsDedup() && v.Marshal() != "0"
		case *crdt.Object:
			for _, n := range v.RHTNodes() {
				if has(n.Element()) {
					return true
				}
			}
		case *crdt.Array:
			for _, n := range v.AllRGANodes() {
				if n.Element() != nil && has(n.Element()) {
					return true
				}
			}
		}
		return false
	}
	for _, c := range cs {
		for _, op := range c.Operations() {
			switch o := op.(type) {
			case *operations.Set:
				if has(o.Value()) {
					return true
				}
			case *operations.Add:
				if has(o.Value()) {
					return true
				}
			case *operations.ArraySet:
				if has(o.Value()) {
					return true
				}
			}
		}
	}
	return false
}

// objIndexesDisagree reports an object whose by-key index holds a live member
// that its by-createdAt index (what snapshots and GC walk) does not hold: the
// precondition of F-RESTORE-TWICE (the same identity restored by two Sets).
func objIndexesDisagree(d *document.Document) bool {
	bad := false
	var walk func(e crdt.Element)
	walk = func(e crdt.Element) {
		switch v := e.(type) {
		case *crdt.Object:
			byID := map[string]crdt.Element{}
			for _, n := range v.RHTNodes() {
				byID[n.Element().CreatedAt().Key()] = n.Element()
				walk(n.Element())
			}
			for _, m := range v.Members() {
				if byID[m.CreatedAt().Key()] != m {
					bad = true
				}
			}
		case *crdt.Array:
			for _, n := range v.AllRGANodes() {
				if n.Element() != nil {
					walk(n.Element())
				}
			}
		}
	}
	walk(d.RootObject())
	return bad
}

// sharedIdentities reports whether the document holds two element instances under one
// createdAt (tombstones included). Undo/redo creates them by design: the reverse of a
// removal re-inserts a deep COPY whose descendants keep their identity (and an object
// member restore keeps even its own), next to the tombstoned original. Which instance
// an identity resolves to then depends on how the document was built (incrementally,
// or from a snapshot walk) - recorded finding F-RESTORE-SHARED-IDENTITY.
func sharedIdentities(d *document.Document) bool {
	seen := map[string]bool{}
	dup := false
	var walk func(e crdt.Element)
	walk = func(e crdt.Element) {
		k := e.CreatedAt().Key()
		if seen[k] {
			dup = true
		}
		seen[k] = true
		switch v := e.(type) {
		case *crdt.Object:
			for _, n := range v.RHTNodes() {
				walk(n.Element())
			}
		case *crdt.Array:
			for _, n := range v.AllRGANodes() {
				if n.Element() != nil {
					walk(n.Element())
				}
			}
		}
	}
	walk(d.RootObject())
	return dup
}

// walkGarbage computes from the STRUCTURE what Root's registry must count:
// elements that are removed or live under a removed container, plus node-level
// tombstones keyed the way the registry keys them (an id registered twice is
// toggled off). shared reports attribute tombstones that share an id.
func walkGarbage(d *document.Document) (n int, shared bool) {
	ids := map[string]int{}
	var walk func(e crdt.Element, underRemoved bool)
	walk = func(e crdt.Element, underRemoved bool) {
		rem := underRemoved || e.RemovedAt() != nil
		if rem {
			n++
		}
		switch v := e.(type) {
		case *crdt.Object:
			for _, m := range v.RHTNodes() {
				walk(m.Element(), rem)
			}
		case *crdt.Array:
			for _, m := range v.AllRGANodes() {
				if m.Element() == nil {
					if m.RemovedAt() != nil {
						ids[m.IDString()]++
					}
				} else {
					walk(m.Element(), rem)
				}
			}
		case *crdt.Text:
			for _, m := range v.Nodes() {
				if m.RemovedAt() != nil {
					ids[m.IDString()]++
				}
				if m.Value().Attrs() != nil {
					for _, a := range m.Value().Attrs().Nodes() {
						if a.IsRemoved() {
							ids["attr:"+a.IDString()]++
						}
					}
				}
			}
		case *crdt.Tree:
			for _, m := range v.Nodes() {
				if m.RemovedAt() != nil {
					ids[m.IDString()]++
				}
				if m.Attrs != nil {
					for _, a := range m.Attrs.Nodes() {
						if a.IsRemoved() {
							ids["attr:"+a.IDString()]++
						}
					}
				}
			}
		}
	}
	walk(d.RootObject(), false)
	for id, c := range ids {
		if c%2 == 1 {
			n++
		}
		if c > 1 && strings.HasPrefix(id, "attr:") {
			shared = true
		}
	}
	return n, shared
}

func (w *c09Worker) runLossless(res *runner.CaseResult, idx int, seed int64, rp *c09Replay) {
	rng := caseRng(seed^0xc09, idx)
	prof := c07Profile(rng)
	prof.NoDedup = false
	// VERIF_C09_UNFENCED=1 is a tooling switch used once to harvest witnesses of
	// the recorded findings; registered commands never set it.
	fenced := (rp == nil && os.Getenv("VERIF_C09_UNFENCED") == "") || (rp != nil && !rp.Unfenced)
	k := key.Key("c09-doc")
	A, B := document.New(k), document.New(k)
	A.SetActor(actorA)
	B.SetActor(actorB)
	A.SetStatus(document.StatusAttached)
	B.SetStatus(document.StatusAttached)
	mk := func() *document.Document {
		d := document.New(k)
		d.SetStatus(document.StatusAttached)
		return d
	}
	followers := map[string]*document.Document{"memory": mk(), "wire": mk(), "store": mk(), "wire-twice": mk(), "snapshot-fork": mk()}
	order := []string{"memory", "wire", "store", "wire-twice", "snapshot-fork"}
	serverSeq := int64(0)
	var steps []c09Step
	stop := false
	// restoredTwice: two Set operations of different changes put the same member identity
	// back (precondition of F-RESTORE-TWICE), read off the delivered changes
	restoredTwice := false
	restoredBy := map[string]*change.Change{}
	viol := func(kind, detail string) {
		stop = true
		var prog []string
		for _, st := range steps {
			prog = append(prog, st.String())
		}
		ident := ""
		if fenced && restoredTwice && (strings.HasPrefix(kind, "decoded-") || strings.HasPrefix(kind, "snapshot-")) {
			ident = "restore-twice:" + kind
		} else if fenced && strings.HasPrefix(kind, "decoded-") || fenced && strings.HasPrefix(kind, "snapshot-") {
			for _, f := range followers {
				if sharedIdentities(f) {
					ident = "shared-identity:" + kind
					break
				}
			}
		}
		res.Violate(kind, detail+"\nhistory: "+strings.Join(prog, "; "), ident, c09Replay{Family: "lossless", Seed: seed, Idx: idx, Steps: steps, Unfenced: !fenced})
	}
	special, delivered, undone := 0, 0, 0
	// deliver the pending changes of an author to the other author and to all followers
	deliver := func(from, to *document.Document, who string) {
		pack := from.CreateChangePack()
		if len(pack.Changes) == 0 {
			return
		}
		for _, c := range pack.Changes {
			for _, op := range c.Operations() {
				if o, ok := op.(*operations.Set); ok && o.Value() != nil && o.Value().CreatedAt().Key() != o.ExecutedAt().Key() {
					k := o.Value().CreatedAt().Key()
					if c0, seen := restoredBy[k]; seen && c0 != c {
						restoredTwice = true
					}
					restoredBy[k] = c
				}
			}
		}
		if carriesDedupState(pack.Changes) {
			res.AddStat("ops_carrying_dedup_state", 1)
			if fenced {
				res.AddStat("fenced_F-DEDUP-HLL-OPS", 1)
				stop = true
				return
			}
		}
		wire, raw, err := viaWire(pack.Changes, k)
		if err != nil {
			viol("encode-failed", fmt.Sprintf("changes of %s cannot cross the wire codec: %v", who, err))
			return
		}
		harvest(&corpusPacks, raw)
		store, err := viaStore(pack.Changes)
		if err != nil {
			viol("encode-failed", fmt.Sprintf("changes of %s cannot cross the storage codec: %v", who, err))
			return
		}
		// "re-encodes to the same meaning": a second encode/decode generation of the
		// decoded pack feeds its own follower (bytes are not compared: member order
		// inside embedded containers follows map iteration)
		wire2, _, err := viaWire(wire, k)
		if err != nil {
			viol("re-encode-failed", fmt.Sprintf("changes of %s: the decoded pack cannot be encoded again: %v", who, err))
			return
		}
		res.AddStat("packs_reencoded", 1)
		serverSeq += int64(len(pack.Changes))
		apply := func(d *document.Document, cs []*change.Change) error {
			return d.ApplyChangePack(change.NewPack(k, d.Checkpoint().NextServerSeq(serverSeq), cs, nil, nil))
		}
		errs := map[string]error{
			"memory":        apply(followers["memory"], pack.Changes),
			"wire":          apply(followers["wire"], wire),
			"store":         apply(followers["store"], store),
			"wire-twice":    apply(followers["wire-twice"], wire2),
			"snapshot-fork": apply(followers["snapshot-fork"], wire),
		}
		if err := apply(to, wire); err != nil {
			res.AddStat("author_exchange_failed_not_judged", 1) // convergence/GC matters are C01/C03's
			stop = true
			return
		}
		_ = from.ApplyChangePack(change.NewPack(k, change.NewCheckpoint(serverSeq, pack.Checkpoint.ClientSeq), nil, nil, nil))
		delivered += len(pack.Changes)
		res.AddStat("changes_delivered_3_ways", int64(len(pack.Changes)))
		for _, c := range pack.Changes {
			for _, op := range c.Operations() {
				res.AddSet("operation_types", strings.TrimPrefix(fmt.Sprintf("%T", op), "*operations."))
			}
		}
		if errs["memory"] != nil {
			// the never-serialised follower cannot apply either: not an encoding matter
			res.AddStat("reference_follower_failed_not_judged", 1)
			stop = true
			return
		}
		for _, n := range order[1:] {
			if errs[n] != nil {
				viol("decoded-change-not-applicable", fmt.Sprintf("changes of %s apply in memory but not after the %s channel: %v", who, n, errs[n]))
				return
			}
		}
		ref := followers["memory"]
		if objIndexesDisagree(ref) {
			res.AddStat("object_indexes_disagree", 1)
			if fenced {
				res.AddStat("fenced_F-RESTORE-TWICE", 1)
				stop = true
				return
			}
		}
		rm, rg, rd := ref.Marshal(), ref.GarbageLen(), digestDoc(ref)
		for _, n := range order[1:] {
			f := followers[n]
			if m := f.Marshal(); m != rm {
				viol("decoded-value-differs", fmt.Sprintf("after changes of %s the %s follower shows\n %s\nthe never-serialised follower shows\n %s", who, n, m, rm))
				return
			}
			if d := digestDoc(f); d != rd {
				viol("decoded-structure-differs", fmt.Sprintf("after changes of %s the %s follower differs structurally:\n %s\nnever-serialised:\n %s", who, n, firstDiff(d, rd), firstDiff(rd, d)))
				return
			}
			if g := f.GarbageLen(); g != rg {
				if n == "snapshot-fork" && fenced && undone > 0 {
					// F-GC-RESTORE-UNREGISTERED / F-GC-ATTR-ID: a snapshot-fed registry is
					// complete, a change-fed one is not once an undo restored tombstones
					res.AddStat("garbage_len_after_undo_not_judged_known_findings", 1)
					continue
				}
				viol("decoded-garbage-differs", fmt.Sprintf("after changes of %s the %s follower has GarbageLen %d, the never-serialised follower %d", who, n, g, rg))
				return
			}
		}
	}
	doc := func(w string) *document.Document {
		if w == "B" {
			return B
		}
		return A
	}
	exec := func(st c09Step) {
		steps = append(steps, st)
		switch st.T {
		case "undo", "redo":
			if err := safeUndo(doc(st.W), st.T == "undo"); err != nil {
				res.AddStat("undo_redo_errors_not_judged_here", 1)
				stop = true
				return
			}
			special++
			undone++
			res.AddStat("undo_redo_steps", 1)
		case "fork":
			// re-create the snapshot follower from bytes of the wire follower
			src := followers["wire"]
			f, raw, err := forkFromSnapshot(src)
			if err != nil {
				viol("snapshot-roundtrip-failed", err.Error())
				return
			}
			harvest(&corpusSnaps, raw)
			if f.Marshal() != src.Marshal() {
				viol("snapshot-lossy", fmt.Sprintf("decoded snapshot: %s\noriginal: %s\nstructure decoded: %s\nstructure original: %s", f.Marshal(), src.Marshal(), firstDiff(digestDoc(f), digestDoc(src)), firstDiff(digestDoc(src), digestDoc(f))))
				return
			}
			if d1, d2 := digestDoc(f), digestDoc(src); d1 != d2 {
				viol("snapshot-structure-lossy", fmt.Sprintf("decoded snapshot differs structurally:\n %s\noriginal:\n %s", firstDiff(d1, d2), firstDiff(d2, d1)))
				return
			}
			if f.GarbageLen() != src.GarbageLen() {
				wg, shared := walkGarbage(src)
				switch {
				case fenced && shared:
					res.AddStat("fenced_F-GC-ATTR-ID", 1)
				case fenced && undone > 0 && wg != src.GarbageLen():
					res.AddStat("fenced_F-GC-RESTORE-UNREGISTERED", 1)
				default:
					viol("snapshot-garbage-lossy", fmt.Sprintf("decoded snapshot has GarbageLen %d, the original %d (its structure holds %d collectable tombstones: %s)", f.GarbageLen(), src.GarbageLen(), wg, tombstones(src)))
					return
				}
			} else {
				res.AddStat("snapshot_garbage_len_compared", 1)
			}
			// a second generation must be byte-identical in meaning
			// (member order inside the bytes follows map iteration, so generations are
			// compared as decoded values, not as bytes)
			if f2, _, err := forkFromSnapshot(f); err != nil || f2.Marshal() != f.Marshal() || digestDoc(f2) != digestDoc(f) || f2.GarbageLen() != f.GarbageLen() {
				viol("snapshot-re-encode-differs", fmt.Sprintf("a second encode/decode generation differs from the first (err=%v)", err))
				return
			}
			f.SetStatus(document.StatusAttached)
			followers["snapshot-fork"] = f
			res.AddStat("snapshot_forks", 1)
			special++
		case "deliver":
			other := B
			if st.W == "B" {
				other = A
			}
			deliver(doc(st.W), other, st.W)
		case "edit":
			if err := safeUpdate(doc(st.W), []gen.Edit{*st.E}); err != nil {
				steps = steps[:len(steps)-1]
				return
			}
			res.AddSet("ops", st.E.Op)
		}
	}
	if rp != nil && len(rp.Steps) > 0 {
		for _, st := range rp.Steps {
			if stop {
				break
			}
			exec(st)
		}
	} else {
		init := gen.InitEdits()
		for i := range init {
			exec(c09Step{W: "A", T: "edit", E: &init[i]})
		}
		exec(c09Step{W: "A", T: "deliver"})
		n := 12 + rng.Intn(30)
		if w.tier == "thorough" {
			n = 12 + rng.Intn(90)
		}
		for s := 0; s < n && !stop; s++ {
			name := "A"
			if rng.Intn(2) == 0 {
				name = "B"
			}
			x := rng.Intn(100)
			switch {
			case x < 14:
				op := "undo"
				if rng.Intn(3) == 0 {
					op = "redo"
				}
				exec(c09Step{W: name, T: op})
			case x < 20:
				exec(c09Step{T: "fork"})
			case x < 50:
				exec(c09Step{W: name, T: "deliver"})
			default:
				conts := gen.Scan(doc(name).Root().Object, prof.MaxDepth)
				e := prof.Next(rng, conts, name)
				if e.Op == "arr.set" {
					continue
				}
				exec(c09Step{W: name, T: "edit", E: &e})
			}
		}
		if !stop {
			exec(c09Step{W: "A", T: "deliver"})
		}
		if !stop {
			exec(c09Step{W: "B", T: "deliver"})
		}
		if !stop {
			exec(c09Step{T: "fork"})
		}
	}
	res.Hash = runner.HashOf(steps)
	res.Nontrivial = delivered >= 10 && special >= 1
	if idx%499 == 0 {
		var prog []string
		for i, st := range steps {
			if i >= 25 {
				break
			}
			prog = append(prog, st.String())
		}
		b, _ := json.Marshal(map[string]any{"family": "lossless", "first_steps": prog, "delivered": delivered})
		res.Sample = b
	}
}

// sameMeaning compares two protobuf encodings up to map-entry order: both are
// decoded and re-marshalled deterministically.
func sameMeaning(a, b []byte) bool {
	if string(a) == string(b) {
		return true
	}
	canon := func(x []byte) (string, bool) {
		var s1 api.Snapshot
		if proto.Unmarshal(x, &s1) == nil {
			if o, err := (proto.MarshalOptions{Deterministic: true}).Marshal(&s1); err == nil {
				return string(o), true
			}
		}
		return "", false
	}
	canonPack := func(x []byte) (string, bool) {
		var s1 api.ChangePack
		if proto.Unmarshal(x, &s1) == nil {
			if o, err := (proto.MarshalOptions{Deterministic: true}).Marshal(&s1); err == nil {
				return string(o), true
			}
		}
		return "", false
	}
	if x, ok := canon(a); ok {
		if y, ok := canon(b); ok && x == y {
			return true
		}
	}
	if x, ok := canonPack(a); ok {
		if y, ok := canonPack(b); ok && x == y {
			return true
		}
	}
	return false
}

var c09DebugFull bool

func firstDiff(a, b string) string {
	if c09DebugFull {
		return a
	}
	i := 0
	for i < len(a) && i < len(b) && a[i] == b[i] {
		i++
	}
	lo := i - 120
	if lo < 0 {
		lo = 0
	}
	hi := i + 200
	if hi > len(a) {
		hi = len(a)
	}
	return "…" + a[lo:hi] + "…"
}

// ---- hostile bytes ----

type decoder struct {
	name string
	fn   func(b []byte)
}

var decoders = []decoder{
	{"FromChangePack", func(b []byte) {
		var pb api.ChangePack
		if proto.Unmarshal(b, &pb) == nil {
			_, _ = converter.FromChangePack(&pb)
		}
	}},
	{"BytesToSnapshot", func(b []byte) { _, _, _ = converter.BytesToSnapshot(b) }},
	{"BytesToObject", func(b []byte) { _, _ = converter.BytesToObject(b) }},
	{"BytesToArray", func(b []byte) { _, _ = converter.BytesToArray(b) }},
	{"BytesToTree", func(b []byte) { _, _ = converter.BytesToTree(b) }},
	{"VersionVectorFromBytes", func(b []byte) { _, _ = time.VersionVectorFromBytes(b) }},
	{"ValueFromBytes", func(b []byte) {
		if len(b) > 0 {
			_, _ = crdt.ValueFromBytes(crdt.ValueType(int(b[0])%12), b[1:])
		}
	}},
	{"CounterValueFromBytes", func(b []byte) {
		if len(b) > 0 {
			_, _ = crdt.CounterValueFromBytes(crdt.CounterType(int(b[0])%4), b[1:])
		}
	}},
	{"DecompressSnapshot", func(b []byte) { _, _ = database.DecompressSnapshot(b) }},
	{"ChangeInfo.ToChange", func(b []byte) {
		// operations column: each operation is one byte string
		info := &database.ChangeInfo{ActorID: types.ID("0000000000000000000000aa"), Operations: [][]byte{b}}
		if len(b) > 8 {
			info.Operations = [][]byte{b[:len(b)/2], b[len(b)/2:]}
		}
		_, _ = info.ToChange()
	}},
	{"PresenceChangeFromBytes", func(b []byte) { _, _ = database.PresenceChangeFromBytes(b) }},
	{"yson.Unmarshal", func(b []byte) {
		var o yson.Object
		_ = yson.Unmarshal(string(b), &o)
	}},
}

// guarded runs fn under recover, a watchdog and an allocation meter.
func guarded(fn func(b []byte), in []byte) (problem string) {
	done := make(chan string, 1)
	var ms0 runtime.MemStats
	runtime.ReadMemStats(&ms0)
	go func() {
		defer func() {
			if x := recover(); x != nil {
				buf := make([]byte, 2048)
				n := runtime.Stack(buf, false)
				done <- fmt.Sprintf("panic: %v\n%s", x, buf[:n])
				return
			}
			done <- ""
		}()
		fn(in)
	}()
	select {
	case p := <-done:
		if p != "" {
			return p
		}
	case <-gotime.After(3 * gotime.Second):
		return "hang: no return within 3s"
	}
	var ms1 runtime.MemStats
	runtime.ReadMemStats(&ms1)
	if d := ms1.TotalAlloc - ms0.TotalAlloc; d > 512<<20 {
		return fmt.Sprintf("allocation blow-up: %d MiB allocated for %d input bytes", d>>20, len(in))
	}
	return ""
}

func mutateBytes(rng *rand.Rand, b []byte) []byte {
	out := append([]byte(nil), b...)
	switch rng.Intn(7) {
	case 0: // bit flips
		for i := 0; i < 1+rng.Intn(4) && len(out) > 0; i++ {
			out[rng.Intn(len(out))] ^= 1 << uint(rng.Intn(8))
		}
	case 1: // truncate
		if len(out) > 0 {
			out = out[:rng.Intn(len(out))]
		}
	case 2: // overwrite a byte with an extreme
		if len(out) > 0 {
			out[rng.Intn(len(out))] = []byte{0, 0xff, 0x7f, 0x80, 1}[rng.Intn(5)]
		}
	case 3: // splice a chunk elsewhere
		if len(out) > 4 {
			i, j := rng.Intn(len(out)), rng.Intn(len(out))
			n := 1 + rng.Intn(8)
			if i+n <= len(out) && j+n <= len(out) {
				copy(out[j:j+n], out[i:i+n])
			}
		}
	case 4: // insert a huge varint
		if len(out) > 0 {
			i := rng.Intn(len(out))
			out = append(out[:i], append([]byte{0xff, 0xff, 0xff, 0xff, 0xff, 0xff, 0xff, 0xff, 0xff, 0x01}, out[i:]...)...)
		}
	case 5: // duplicate a chunk (repeated fields / nesting)
		if len(out) > 2 {
			i := rng.Intn(len(out) - 1)
			n := 1 + rng.Intn(len(out)-i)
			out = append(out[:i+n], append(append([]byte(nil), out[i:i+n]...), out[i+n:]...)...)
		}
	default: // delete a chunk
		if len(out) > 2 {
			i := rng.Intn(len(out) - 1)
			n := 1 + rng.Intn(minInt2(8, len(out)-i))
			out = append(out[:i], out[i+n:]...)
		}
	}
	return out
}

func minInt2(a, b int) int {
	if a < b {
		return a
	}
	return b
}

// structural mutation of a change pack: clear / swap fields of the decoded message.
func mutatePack(rng *rand.Rand, b []byte) []byte {
	var pb api.ChangePack
	if proto.Unmarshal(b, &pb) != nil {
		return mutateBytes(rng, b)
	}
	var walk func(m proto.Message, depth int)
	walk = func(m proto.Message, depth int) {
		r := m.ProtoReflect()
		r.Range(func(fd protoreflect.FieldDescriptor, v protoreflect.Value) bool {
			if rng.Intn(12) == 0 {
				r.Clear(fd)
				return true
			}
			switch {
			case fd.IsList() && fd.Message() != nil:
				l := v.List()
				for i := 0; i < l.Len(); i++ {
					walk(l.Get(i).Message().Interface(), depth+1)
				}
				if l.Len() > 0 && rng.Intn(10) == 0 {
					l.Append(l.Get(rng.Intn(l.Len())))
				}
			case fd.Message() != nil && !fd.IsMap():
				walk(v.Message().Interface(), depth+1)
			case fd.Kind() == protoreflect.EnumKind && !fd.IsList():
				// another label of the same enum (a TEXT value whose payload is an object, an
				// operation body under the wrong element type, ...) or a number outside it
				if rng.Intn(6) == 0 {
					vals := fd.Enum().Values()
					n := protoreflect.EnumNumber(vals.Get(rng.Intn(vals.Len())).Number())
					if rng.Intn(5) == 0 {
						n = protoreflect.EnumNumber([]int32{-1, 99, 1 << 30}[rng.Intn(3)])
					}
					r.Set(fd, protoreflect.ValueOfEnum(n))
				}
			case fd.Kind() == protoreflect.BytesKind && !fd.IsList() && !fd.IsMap():
				// nested encodings travel as bytes (element values, snapshots, actor ids)
				if rng.Intn(10) == 0 {
					r.Set(fd, protoreflect.ValueOfBytes(mutateBytes(rng, v.Bytes())))
				}
			case fd.Kind() == protoreflect.StringKind && !fd.IsList() && !fd.IsMap():
				if rng.Intn(14) == 0 {
					r.Set(fd, protoreflect.ValueOfString([]string{"", "\x00", strings.Repeat("k", 1<<12), "$.a[", "\xff\xfe"}[rng.Intn(5)]))
				}
			case fd.Kind().String() == "int32" || fd.Kind().String() == "int64" || fd.Kind().String() == "uint32":
				if rng.Intn(8) == 0 {
					switch fd.Kind().String() {
					case "int32":
						r.Set(fd, protoreflect.ValueOfInt32([]int32{-1, 1 << 30, -(1 << 31)}[rng.Intn(3)]))
					case "int64":
						r.Set(fd, protoreflect.ValueOfInt64([]int64{-1, 1 << 62, -(1 << 63)}[rng.Intn(3)]))
					case "uint32":
						r.Set(fd, protoreflect.ValueOfUint32([]uint32{0, 1 << 31, 0xffffffff}[rng.Intn(3)]))
					}
				}
			}
			return true
		})
	}
	walk(&pb, 0)
	out, err := proto.Marshal(&pb)
	if err != nil {
		return mutateBytes(rng, b)
	}
	return out
}

func (w *c09Worker) runHostile(res *runner.CaseResult, idx int, seed int64) {
	rng := caseRng(seed^0xc09f, idx)
	// make sure there is a corpus in this worker
	if len(corpusPacks) < 20 {
		tmp := runner.CaseResult{}
		for i := 0; i < 6; i++ {
			w.runLossless(&tmp, idx*31+i, seed, nil)
		}
	}
	inputs := 0
	replay := c09Replay{Seed: seed, Idx: idx, Family: "hostile"}
	try := func(d decoder, in []byte) bool {
		inputs++
		if p := guarded(d.fn, in); p != "" {
			if strings.HasPrefix(p, "hang") {
				// re-measure alone
				if p2 := guarded(d.fn, in); !strings.HasPrefix(p2, "hang") {
					res.AddStat("watchdog_not_reproduced", 1)
					return true
				}
			}
			replay.Decoder = d.name
			replay.Hex = fmt.Sprintf("%x", in)
			res.Violate("decoder-"+strings.SplitN(p, ":", 2)[0], fmt.Sprintf("%s on %d bytes (hex %x): %s", d.name, len(in), truncBytes(in, 64), p), "", replay)
			return false
		}
		return true
	}
	for round := 0; round < 60; round++ {
		var base []byte
		isPack := rng.Intn(2) == 0
		if isPack && len(corpusPacks) > 0 {
			base = corpusPacks[rng.Intn(len(corpusPacks))]
		} else if len(corpusSnaps) > 0 {
			base = corpusSnaps[rng.Intn(len(corpusSnaps))]
		} else {
			base = []byte{}
		}
		var in []byte
		if isPack && rng.Intn(2) == 0 {
			in = mutatePack(rng, base)
		} else {
			in = mutateBytes(rng, base)
		}
		for k := 0; k < rng.Intn(3); k++ {
			in = mutateBytes(rng, in)
		}
		for _, d := range decoders {
			if !try(d, in) {
				return
			}
		}
		// truncation at every length for small inputs
		if len(base) <= 96 && round%20 == 0 {
			for n := 0; n < len(base); n++ {
				for _, d := range decoders[:6] {
					if !try(d, base[:n]) {
						return
					}
				}
			}
		}
	}
	res.AddStat("hostile_inputs", int64(inputs))
	res.Hash = fmt.Sprintf("hostile-%d-%d", seed, idx)
	res.Nontrivial = inputs >= 500
	if idx%499 == 1 {
		b, _ := json.Marshal(map[string]any{"family": "hostile", "inputs": inputs, "corpus_packs": len(corpusPacks), "corpus_snapshots": len(corpusSnaps)})
		res.Sample = b
	}
}

func truncBytes(b []byte, n int) []byte {
	if len(b) > n {
		return b[:n]
	}
	return b
}

func (w *c09Worker) Run(idx int) runner.CaseResult {
	res := runner.CaseResult{Case: fmt.Sprintf("c09-%d", idx)}
	if idx%1000 == 501 {
		w.runLarge(&res, idx)
	} else if idx%16 == 15 {
		w.runRPC(&res, idx)
	} else if idx%4 == 3 {
		w.runHostile(&res, idx, w.seed)
	} else {
		w.runLossless(&res, idx, w.seed, nil)
	}
	return res
}

func (w *c09Worker) Replay(data json.RawMessage) runner.CaseResult {
	res := runner.CaseResult{Case: "replay"}
	var rp c09Replay
	if err := json.Unmarshal(data, &rp); err != nil {
		res.Inconclusive = err.Error()
		return res
	}
	if rp.Family == "hostile" && rp.Hex != "" {
		var in []byte
		fmt.Sscanf(rp.Hex, "%x", &in)
		for _, d := range decoders {
			if d.name == rp.Decoder {
				if p := guarded(d.fn, in); p != "" {
					res.Violate("decoder-"+strings.SplitN(p, ":", 2)[0], p, "", rp)
				}
			}
		}
		return res
	}
	if rp.Family == "large" {
		w.runLarge(&res, rp.Idx)
		return res
	}
	if rp.Family == "rpc" {
		old := w.seed
		w.seed = rp.Seed
		w.runRPC(&res, rp.Idx)
		w.seed = old
	} else if rp.Family == "hostile" {
		w.runHostile(&res, rp.Idx, rp.Seed)
	} else {
		w.runLossless(&res, rp.Idx, rp.Seed, &rp)
	}
	return res
}

// reDecode decodes an encoded change pack.
func reDecode(raw []byte) ([]*change.Change, []byte, error) {
	var pb api.ChangePack
	if err := proto.Unmarshal(raw, &pb); err != nil {
		return nil, raw, err
	}
	p, err := converter.FromChangePack(&pb)
	if err != nil {
		return nil, raw, err
	}
	return p.Changes, raw, nil
}
