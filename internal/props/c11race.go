package props

import (
	"context"
	"fmt"
	"sort"
	"strings"
	"sync"
	gotime "time"

	"connectrpc.com/connect"

	"github.com/yorkie-team/yorkie/api/converter"
	"github.com/yorkie-team/yorkie/api/types"
	api "github.com/yorkie-team/yorkie/api/yorkie/v1"
	"github.com/yorkie-team/yorkie/pkg/document"
	yjson "github.com/yorkie-team/yorkie/pkg/document/json"
	"github.com/yorkie-team/yorkie/pkg/document/presence"

	"verif/internal/replica"
	"verif/internal/runner"
	"verif/internal/sim"
)

// race family of C11: TWO requests of ONE client in flight at the same time (a sync that is
// still being handled when the application detaches / deactivates / removes; a client-side
// timeout followed by the next call). The first request is stalled at a chosen storage call
// (before or after it) - every storage call it makes is a stall point, enumerated - the
// second one is started and given the chance to finish, then the first is released. The
// lifecycle clauses must hold on the outcome whatever the order the server chose:
// a Detach / Deactivate / Remove that was ANSWERED OK has taken effect for good.

// gateHook stalls the goroutine that makes the target-th hook crossing after arm().
type gateHook struct {
	mu      sync.Mutex
	armed   bool
	count   int
	target  int
	trail   []string
	reached chan struct{}
	release chan struct{}
}

func (g *gateHook) arm(target int) {
	g.mu.Lock()
	g.armed, g.count, g.target, g.trail = true, 0, target, nil
	g.reached = make(chan struct{})
	g.release = make(chan struct{})
	g.mu.Unlock()
}

func (g *gateHook) disarm() (int, []string) {
	g.mu.Lock()
	defer g.mu.Unlock()
	g.armed = false
	return g.count, g.trail
}

func (g *gateHook) cross(point string) {
	g.mu.Lock()
	if !g.armed {
		g.mu.Unlock()
		return
	}
	g.count++
	g.trail = append(g.trail, point)
	if g.count != g.target {
		g.mu.Unlock()
		return
	}
	g.armed = false
	rel := g.release
	close(g.reached)
	g.mu.Unlock()
	select {
	case <-rel:
	case <-gotime.After(20 * gotime.Second): // never leave a request stalled for ever
	}
}

func (g *gateHook) Before(m string) error       { g.cross("before " + m); return nil }
func (g *gateHook) After(m string, _ error) error { g.cross("after " + m); return nil }

var racePairs = [][2]string{
	{"push", "detach"}, {"detach", "push"}, {"push", "deact"}, {"deact", "push"},
	{"push", "remove"}, {"remove", "push"}, {"detach", "detach"}, {"pushonly", "detach"},
	{"detach", "deact"}, {"attach", "attach"}, {"detach", "attach"},
}

type raceOutcome struct {
	err  error
	done bool
}

func isLockTimeout(err error) bool {
	return err != nil && (strings.Contains(err.Error(), "deadline") || strings.Contains(err.Error(), "timeout"))
}

func (w *c11Worker) runRace(res *runner.CaseResult, idx int) {
	if err := w.raceSetup(); err != nil {
		res.Inconclusive = err.Error()
		return
	}
	n := idx
	pair := racePairs[n%len(racePairs)]
	stall := 1 + (n/len(racePairs))%40
	replay := map[string]any{"family": "race", "seed": w.seed, "idx": idx}
	proj, err := w.project(0)
	if err != nil {
		res.Inconclusive = err.Error()
		return
	}
	ctx := context.Background()
	world := sim.NewWorld(w.env, proj, sim.WorldCfg{}, fmt.Sprintf("c11r-%d", idx))
	world.Exec(sim.Step{T: "attach", R: 0})
	world.Exec(sim.Step{T: "attach", R: 1})
	if len(world.Fail) > 0 {
		res.Inconclusive = "setup: " + world.Fail[0].Detail
		return
	}
	r0, r1 := world.Reps[0], world.Reps[1]
	_ = r0.Update(func(root *yjson.Object, _ *presence.Presence) error { root.SetString("k0", "v0"); return nil })
	world.Exec(sim.Step{T: "sync", R: 0})
	world.Exec(sim.Step{T: "sync", R: 1})
	if len(world.Fail) > 0 {
		res.Inconclusive = "setup: " + world.Fail[0].Detail
		return
	}
	if pair[0] == "attach" || pair[1] == "attach" {
		if pair[0] == "attach" {
			// both requests attach: start from a detached client
			if err := r0.Detach(ctx); err != nil {
				res.Inconclusive = "setup: " + err.Error()
				return
			}
		}
	}
	w.env.WaitIdle()
	docID := r0.DocID
	rpc := w.env.RPC(proj.PublicKey)

	// build both requests before anything is sent
	_ = r0.Doc.Update(func(root *yjson.Object, _ *presence.Presence) error { root.SetString("race", "x"); return nil })
	build := func(kind string) (func() error, error) {
		switch kind {
		case "push", "pushonly":
			pb, err := converter.ToChangePack(r0.Doc.CreateChangePack())
			if err != nil {
				return nil, err
			}
			req := &api.PushPullChangesRequest{ClientId: r0.ID.String(), DocumentId: docID, ChangePack: pb, PushOnly: kind == "pushonly"}
			return func() error {
				_, err := rpc.PushPullChanges(ctx, hdr(connect.NewRequest(req), proj.PublicKey, r0.DocKey.String()))
				return err
			}, nil
		case "detach":
			// what client.Detach sends: the unacknowledged changes plus a presence clear
			d2 := r0.Doc
			_ = d2.Update(func(_ *yjson.Object, p *presence.Presence) error { p.Clear(); return nil })
			pack := d2.CreateChangePack()
			pb, err := converter.ToChangePack(pack)
			if err != nil {
				return nil, err
			}
			req := &api.DetachDocumentRequest{ClientId: r0.ID.String(), DocumentId: docID, ChangePack: pb}
			return func() error {
				_, err := rpc.DetachDocument(ctx, hdr(connect.NewRequest(req), proj.PublicKey, r0.DocKey.String()))
				return err
			}, nil
		case "remove":
			pb, err := converter.ToChangePack(r0.Doc.CreateChangePack())
			if err != nil {
				return nil, err
			}
			pb.IsRemoved = true
			req := &api.RemoveDocumentRequest{ClientId: r0.ID.String(), DocumentId: docID, ChangePack: pb}
			return func() error {
				_, err := rpc.RemoveDocument(ctx, hdr(connect.NewRequest(req), proj.PublicKey, r0.DocKey.String()))
				return err
			}, nil
		case "deact":
			req := &api.DeactivateClientRequest{ClientId: r0.ID.String(), Synchronous: true}
			return func() error {
				_, err := rpc.DeactivateClient(ctx, hdr(connect.NewRequest(req), proj.PublicKey, r0.ClientKey))
				return err
			}, nil
		case "attach":
			d := document.New(r0.DocKey)
			d.SetActor(r0.ID)
			pb, err := converter.ToChangePack(d.CreateChangePack())
			if err != nil {
				return nil, err
			}
			req := &api.AttachDocumentRequest{ClientId: r0.ID.String(), ChangePack: pb}
			return func() error {
				_, err := rpc.AttachDocument(ctx, hdr(connect.NewRequest(req), proj.PublicKey, r0.DocKey.String()))
				return err
			}, nil
		}
		return nil, fmt.Errorf("unknown kind %s", kind)
	}
	callA, err := build(pair[0])
	if err != nil {
		res.Inconclusive = err.Error()
		return
	}
	callB, err := build(pair[1])
	if err != nil {
		res.Inconclusive = err.Error()
		return
	}
	rowsBefore := w.logRows(proj, docID)

	t0 := gotime.Now()
	defer func() {
		if d := gotime.Since(t0); d > 2*gotime.Second {
			res.AddSet("race_slow_cases", fmt.Sprintf("%s||%s stall %d: %.0fs", pair[0], pair[1], stall, d.Seconds()))
		}
	}()
	w.gate.arm(stall)
	var a, b raceOutcome
	doneA, doneB := make(chan struct{}), make(chan struct{})
	go func() { a.err = callA(); a.done = true; close(doneA) }()
	stalled := false
	select {
	case <-w.gate.reached:
		stalled = true
	case <-doneA: // A makes fewer storage calls than the stall point: plain sequential order
		w.gate.disarm()
	}
	go func() { b.err = callB(); b.done = true; close(doneB) }()
	if stalled {
		// B either finishes while A is stalled or waits for a lock A holds
		select {
		case <-doneB:
			res.AddStat("race_second_request_overtook_the_first", 1)
		case <-gotime.After(150 * gotime.Millisecond):
			res.AddStat("race_second_request_waited_for_the_first", 1)
		}
		close(w.gate.release)
	}
	watchdog := gotime.After(60 * gotime.Second)
	for _, ch := range []chan struct{}{doneA, doneB} {
		select {
		case <-ch:
		case <-watchdog:
			w.gate.disarm()
			res.Inconclusive = "a racing request did not return within 60 s"
			return
		}
	}
	crossings, trail := w.gate.disarm()
	w.env.WaitIdle()
	if stalled {
		res.AddStat("race_cases_with_a_stalled_request", 1)
		res.AddSet("race_stall_points", pair[0]+": "+trail[len(trail)-1])
	} else {
		res.AddStat("race_cases_sequential_stall_point_beyond_request", 1)
		_ = crossings
	}
	res.AddSet("race_pairs", pair[0]+"||"+pair[1])
	res.AddStat("race_cases", 1)

	where := fmt.Sprintf("%s || %s by one client, first stalled %s (answers: %s -> %v, %s -> %v)", pair[0], pair[1],
		func() string {
			if stalled {
				return trail[len(trail)-1]
			}
			return "nowhere"
		}(), pair[0], errStr(a.err), pair[1], errStr(b.err))
	viol := func(kind, detail string) { res.Violate(kind, where+": "+detail, "", replay) }
	if isLockTimeout(a.err) || isLockTimeout(b.err) {
		res.AddStat("race_cases_lock_wait_timeout_not_judged", 1)
		return
	}

	answeredOK := func(kind string) bool {
		return (pair[0] == kind && a.err == nil) || (pair[1] == kind && b.err == nil)
	}
	// ---- what the server holds now ----
	ci, cerr := w.env.BE.DB.FindClientInfoByRefKey(ctx, types.ClientRefKey{ProjectID: proj.ID, ClientID: types.IDFromActorID(r0.ID)}, true)
	if cerr != nil {
		res.Inconclusive = cerr.Error()
		return
	}
	status := ""
	if di, ok := ci.Documents[types.ID(docID)]; ok && di != nil {
		status = di.Status
	}
	vvRow := w.hasVVRow(docID, r0.ID.String())
	rows := w.logRows(proj, docID)
	// every (actor, clientSeq) at most once
	seen := map[string]int{}
	for _, c := range rows {
		if c.ActorID.String() == r0.ID.String() {
			seen[fmt.Sprint(c.ClientSeq)]++
		}
	}
	for cs, k := range seen {
		if k > 1 {
			viol("race-change-stored-twice", fmt.Sprintf("client sequence %s of the racing client is %d times in the log", cs, k))
			return
		}
	}
	attachAnswered := answeredOK("attach")
	switch {
	case answeredOK("deact"):
		if ci.Status != "deactivated" {
			viol("race-deactivate-undone", "DeactivateClient answered OK but the stored client status is "+ci.Status)
			return
		}
		if status == "attached" || status == "attaching" {
			viol("race-deactivate-undone", "DeactivateClient answered OK but the client's document is stored as "+status)
			return
		}
		if vvRow {
			viol("race-version-vector-row-survives", "DeactivateClient answered OK but the client's version-vector row exists (it holds back garbage collection for ever)")
			return
		}
	case answeredOK("remove"):
		if status == "attached" || status == "attaching" {
			viol("race-remove-undone", "RemoveDocument answered OK but the client's document is stored as "+status)
			return
		}
		if vvRow {
			viol("race-version-vector-row-survives", "RemoveDocument answered OK but the client's version-vector row exists")
			return
		}
	case answeredOK("detach") && !attachAnswered:
		if status != "detached" {
			viol("race-detach-undone", "DetachDocument answered OK but the client's document is stored as "+status)
			return
		}
		if vvRow {
			viol("race-version-vector-row-survives", "DetachDocument answered OK but the client's version-vector row exists (it holds back garbage collection for ever)")
			return
		}
	}
	if pair[0] == "attach" && pair[1] == "attach" && a.err == nil && b.err == nil {
		viol("race-attached-twice", "two AttachDocument calls of one client on one document were both answered OK")
		return
	}
	// ---- the departed client cannot write ----
	departed := (answeredOK("deact") || answeredOK("remove") || answeredOK("detach")) && !attachAnswered
	if departed {
		pre := len(w.logRows(proj, docID))
		d := r0.Doc
		_ = d.Update(func(root *yjson.Object, _ *presence.Presence) error { root.SetString("late", "write"); return nil })
		pb, err := converter.ToChangePack(d.CreateChangePack())
		if err == nil {
			_, perr := rpc.PushPullChanges(ctx, hdr(connect.NewRequest(&api.PushPullChangesRequest{ClientId: r0.ID.String(), DocumentId: docID, ChangePack: pb}), proj.PublicKey, r0.DocKey.String()))
			w.env.WaitIdle()
			post := len(w.logRows(proj, docID))
			res.AddStat("race_late_writes_checked", 1)
			if perr == nil && !answeredOK("remove") {
				viol("race-departed-client-writes", "a PushPull sent after the client's departure was answered OK")
				return
			}
			if post != pre {
				viol("race-departed-client-writes", fmt.Sprintf("a PushPull sent after the client's departure stored %d change(s)", post-pre))
				return
			}
		}
	}
	// ---- the bystander still syncs, and sees the racing change iff it was stored ----
	if err := r1.Sync(ctx, false); err != nil {
		viol("race-bystander-sync-failed", err.Error())
		return
	}
	stored := len(rows) - len(rowsBefore)
	_ = stored
	if answeredOK("remove") {
		if r1.Doc.Status() != document.StatusRemoved {
			viol("race-removed-document-not-reported", "RemoveDocument answered OK but the other client's next sync does not carry the removed flag")
			return
		}
	}
	res.Nontrivial = stalled
	res.Hash = runner.HashOf([]string{pair[0], pair[1], fmt.Sprint(stall)})
	if idx%97 == 10 {
		res.Sample = sampleOf(sim.History{}, map[string]any{"family": "race", "case": where, "trail_of_first_request": trail})
	}
}

func errStr(err error) string {
	if err == nil {
		return "OK"
	}
	s := err.Error()
	if len(s) > 120 {
		s = s[:120]
	}
	return s
}

func (w *c11Worker) logRows(proj *types.Project, docID string) []*changeRow {
	cs, err := w.env.BE.DB.FindChangeInfosBetweenServerSeqs(context.Background(), types.DocRefKey{ProjectID: proj.ID, DocID: types.ID(docID)}, 1, 1<<62)
	if err != nil {
		return nil
	}
	out := make([]*changeRow, 0, len(cs))
	for _, c := range cs {
		out = append(out, &changeRow{ActorID: c.ActorID, ClientSeq: c.ClientSeq, ServerSeq: c.ServerSeq})
	}
	sort.Slice(out, func(i, j int) bool { return out[i].ServerSeq < out[j].ServerSeq })
	return out
}

type changeRow struct {
	ActorID   types.ID
	ClientSeq uint32
	ServerSeq int64
}

func (w *c11Worker) hasVVRow(docID, clientID string) bool {
	if w.mem == nil {
		return false
	}
	rows, err := w.mem.VerifVersionVectors(types.ID(docID))
	if err != nil {
		return false
	}
	for _, r := range rows {
		if r.ClientID.String() == clientID {
			return true
		}
	}
	return false
}

var _ = replica.New
