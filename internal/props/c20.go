package props

import (
	"context"
	"encoding/json"
	"fmt"
	"math/rand"
	"sort"
	"strings"
	"sync"

	"github.com/yorkie-team/yorkie/api/types"
	"github.com/yorkie-team/yorkie/pkg/document"
	"github.com/yorkie-team/yorkie/pkg/document/presence/inner"
	"github.com/yorkie-team/yorkie/server/backend/database"
	"github.com/yorkie-team/yorkie/server/backend/database/mongo"
	"github.com/yorkie-team/yorkie/server/documents"
	"github.com/yorkie-team/yorkie/server/packs"

	"verif/internal/boot"
	"verif/internal/gen"
	"verif/internal/replica"
	"verif/internal/runner"
	"verif/internal/sim"
)

type c20 struct{}

func init() { register(c20{}) }

func (c20) ID() string    { return "C20" }
func (c20) Level() string { return "exploration" }
func (c20) Rule() string {
	return "five case families (lru, lru-parallel: pkg/cache.LRU and LRUWithExpires driven with the read-through / write-through / invalidate protocol against a plain map as the store - a hit must be the store's current value of a key that was added since its last Remove/Purge, Remove/Purge take effect at once, Len never exceeds what was added, Stats count every Get once; with a short expiry nothing is answered after expiry + margin; 8 goroutines writing disjoint keys that share shards, under the race detector). Further three case families. (ranges) the MongoDB client's change cache (mongo.ChangeStore, which needs no MongoDB to run) is driven " +
		"with the exact protocol of mongo.Client - a push appends rows (operation changes go to a ground-truth table, to the store " +
		"via ReplaceOrInsert and ExpandRange(initial+1..head); presence-only changes go to a second store only), a read is " +
		"FindChangeInfosBetweenServerSeqs' composition of both stores with EnsureChanges over a fetcher that reads the ground truth, " +
		"an eviction replaces the store by an empty one, a detach calls RemoveChangesByActor - over random sequences of " +
		"push / read(from,to) / evict / detach with holes where presence-only changes live. Oracle per read: the operation rows " +
		"returned are exactly the ground-truth rows of [from,to] in ascending order, presence rows are exactly the cached ones not " +
		"removed; the fetcher is never asked for a sequence number that a previous fetch, push or ExpandRange since the last " +
		"eviction already covered, and never outside [from,to]. (ranges-parallel) the same with 4 goroutines reading while one " +
		"pushes, under the race detector; every read must be a correct answer for some head between its call and its return. " +
		"(snapshots) on the real server (snapshot interval 1..4, snapshot cache of 1..3 entries, several documents competing for " +
		"it) packs.BuildInternalDocForServerSeq(s) is called for random s <= head in random order between the pushes of a " +
		"generated history, the returned document is scribbled on (the next logged change is applied to it, as PushPull does) and " +
		"the same s is requested again; a change-fed shadow of the stored log gives the expected content per s. Oracle: every " +
		"rebuild, cache hit or miss, before or after an eviction, equals the shadow at s. Every second snapshot case ends with a compaction after which the new generation outgrows the cached old one."
}
func (c20) Assumptions() []string {
	return []string{"ChangeStore is exercised directly (the surrounding mongo.Client methods need a live MongoDB); the protocol around it is copied from client.go CreateChangeInfos / FindChangeInfosBetweenServerSeqs",
		"presence-only changes are by design only cached: after an eviction of the presence store they are gone, which the model mirrors",
		"the LRU wrappers of pkg/cache (sharded LRU, expirable LRU) are driven directly by the lru families; expiry is judged one-sidedly (nothing is answered later than expiry + margin after it was added; a sleep is a lower bound on elapsed time)"}
}
func (c20) NumCases(tier string, _ int64) int {
	if tier == "thorough" {
		return 12000
	}
	return 1500
}
func (c20) Exhaustive(string) bool { return false }
func (c20) Floors(string) []runner.Floor {
	return []runner.Floor{{Stat: "range_reads_checked", Min: 20000}, {Stat: "fetcher_calls_checked", Min: 3000}, {Stat: "rebuilds_compared", Min: 1500}, {Stat: "parallel_reads_checked", Min: 2000},
		{Stat: "lru_hits_checked", Min: 5000}, {Stat: "concurrent_rebuilds_compared", Min: 3000}, {Stat: "lru_parallel_hits_checked", Min: 5000}, {Stat: "lru_expired_reads_checked", Min: 100}}
}

type c20Worker struct{ *simWorker }

func (c20) NewWorker(tier string, seed int64) (runner.Worker, error) {
	sw, err := newSimWorker(tier, seed, boot.Options{SnapshotCacheSize: 2})
	if err != nil {
		return nil, err
	}
	return &c20Worker{sw}, nil
}

// ---- ranges: model of mongo.Client around ChangeStore ----

type c20Model struct {
	truth   map[int64]*database.ChangeInfo // operation rows in the database
	pres    map[int64]*database.ChangeInfo // presence-only rows still cached
	head    int64
	op      *mongo.ChangeStore
	pr      *mongo.ChangeStore
	covered map[int64]bool // sequence numbers the op store must not fetch again
	mu      sync.Mutex
	calls   [][2]int64
	bad     string
}

func newC20Model() *c20Model {
	return &c20Model{truth: map[int64]*database.ChangeInfo{}, pres: map[int64]*database.ChangeInfo{}, op: mongo.NewChangeStore(), pr: mongo.NewChangeStore(), covered: map[int64]bool{}}
}

func (m *c20Model) push(rng *rand.Rand, n int, actors []types.ID) string {
	initial := m.head
	var ops, prs []*database.ChangeInfo
	for i := 0; i < n; i++ {
		m.head++
		ci := &database.ChangeInfo{ServerSeq: m.head, ActorID: actors[rng.Intn(len(actors))], ClientSeq: uint32(m.head), Lamport: m.head}
		if rng.Intn(100) < 30 {
			// presence-only: lives in the presence store, a hole in the database
			ci.PresenceChange = &inner.Change{ChangeType: inner.Put, Presence: inner.Presence{"k": fmt.Sprint(m.head)}}
			if rng.Intn(6) == 0 {
				ci.PresenceChange = &inner.Change{ChangeType: inner.Clear}
			}
			prs = append(prs, ci)
			m.pres[ci.ServerSeq] = ci
		} else {
			ci.Operations = [][]byte{[]byte(fmt.Sprintf("op-%d", m.head))}
			ops = append(ops, ci)
			m.truth[ci.ServerSeq] = ci
		}
	}
	if len(prs) > 0 {
		m.pr.ReplaceOrInsert(prs)
	}
	m.op.ReplaceOrInsert(ops)
	m.op.ExpandRange(mongo.ChangeRange{From: initial + 1, To: m.head})
	for s := initial + 1; s <= m.head; s++ {
		m.covered[s] = true
	}
	return fmt.Sprintf("push %d (head %d)", n, m.head)
}

// read is FindChangeInfosBetweenServerSeqs.
func (m *c20Model) read(from, to int64, check bool) ([]*database.ChangeInfo, string) {
	store := mongo.NewChangeStore()
	store.ReplaceOrInsert(m.pr.ChangesInRange(from, to))
	var bad string
	err := m.op.EnsureChanges(from, to, func(f, t int64) ([]*database.ChangeInfo, error) {
		m.mu.Lock()
		m.calls = append(m.calls, [2]int64{f, t})
		if check {
			if f < from || t > to || f > t {
				bad = fmt.Sprintf("the fetcher was asked for [%d,%d] while serving [%d,%d]", f, t, from, to)
			}
			for s := f; s <= t; s++ {
				if m.covered[s] {
					bad = fmt.Sprintf("the fetcher was asked for [%d,%d] although %d had already been fetched, pushed or expanded since the last eviction", f, t, s)
					break
				}
			}
			for s := f; s <= t; s++ {
				m.covered[s] = true
			}
		}
		head := m.head
		m.mu.Unlock()
		var out []*database.ChangeInfo
		for s := f; s <= t && s <= head; s++ {
			m.mu.Lock()
			ci := m.truth[s]
			m.mu.Unlock()
			if ci != nil {
				out = append(out, ci)
			}
		}
		return out, nil
	})
	if err != nil {
		return nil, "EnsureChanges: " + err.Error()
	}
	store.ReplaceOrInsert(m.op.ChangesInRange(from, to))
	return store.ChangesInRange(from, to), bad
}

func seqsOf(cs []*database.ChangeInfo) string {
	var sb strings.Builder
	for _, c := range cs {
		k := "o"
		if c.PresenceOnly() {
			k = "p"
		}
		fmt.Fprintf(&sb, "%d%s ", c.ServerSeq, k)
	}
	return sb.String()
}

func (m *c20Model) expect(from, to int64) string {
	var ss []int64
	for s := range m.truth {
		if s >= from && s <= to {
			ss = append(ss, s)
		}
	}
	for s := range m.pres {
		if s >= from && s <= to {
			ss = append(ss, s)
		}
	}
	sort.Slice(ss, func(i, j int) bool { return ss[i] < ss[j] })
	var sb strings.Builder
	for _, s := range ss {
		k := "o"
		if _, ok := m.pres[s]; ok {
			k = "p"
		}
		fmt.Fprintf(&sb, "%d%s ", s, k)
	}
	return sb.String()
}

func (w *c20Worker) runRanges(res *runner.CaseResult, idx int) {
	rng := caseRng(w.seed^0xc20, idx)
	m := newC20Model()
	actors := []types.ID{"0000000000000000000000a1", "0000000000000000000000a2", "0000000000000000000000a3"}
	var prog []string
	replay := map[string]any{"family": "ranges", "seed": w.seed, "idx": idx}
	steps := 30 + rng.Intn(120)
	for i := 0; i < steps; i++ {
		x := rng.Intn(100)
		switch {
		case x < 25 || m.head == 0:
			prog = append(prog, m.push(rng, 1+rng.Intn(6), actors))
		case x < 85:
			from := 1 + rng.Int63n(m.head)
			to := from + rng.Int63n(m.head-from+1)
			if rng.Intn(8) == 0 {
				to += int64(rng.Intn(3)) // a little beyond the head, as a racing reader may ask
			}
			prog = append(prog, fmt.Sprintf("read [%d,%d]", from, to))
			got, bad := m.read(from, to, true)
			res.AddStat("range_reads_checked", 1)
			res.AddStat("fetcher_calls_checked", int64(len(m.calls)))
			m.calls = nil
			if bad != "" {
				replay["program"] = prog
				res.Violate("fetcher-asked-for-covered-range", bad+"\nprogram: "+strings.Join(prog, "; "), "", replay)
				return
			}
			if g, e := seqsOf(got), m.expect(from, to); g != e {
				replay["program"] = prog
				res.Violate("cache-served-range-differs", fmt.Sprintf("read [%d,%d] returned %s\nthe store holds    %s\nprogram: %s", from, to, g, e, strings.Join(prog, "; ")), "", replay)
				return
			}
			for _, c := range got {
				if want := m.truth[c.ServerSeq]; want != nil && want != c {
					replay["program"] = prog
					res.Violate("cache-served-row-differs", fmt.Sprintf("row %d is not the stored row", c.ServerSeq), "", replay)
					return
				}
			}
		case x < 92:
			// eviction of the operation cache entry (LRU pressure / document removal)
			m.op = mongo.NewChangeStore()
			m.covered = map[int64]bool{}
			prog = append(prog, "evict-ops")
			if rng.Intn(3) == 0 {
				m.pr = mongo.NewChangeStore()
				m.pres = map[int64]*database.ChangeInfo{}
				prog = append(prog, "evict-presence")
			}
		default:
			a := actors[rng.Intn(len(actors))]
			m.pr.RemoveChangesByActor(a)
			for s, c := range m.pres {
				if c.ActorID == a && !c.PresenceChange.IsClear() {
					delete(m.pres, s)
				}
			}
			prog = append(prog, "detach "+string(a)[22:])
		}
	}
	res.Hash = runner.HashOf(prog)
	res.Nontrivial = m.head >= 10
	if idx%499 == 0 {
		n := len(prog)
		if n > 30 {
			n = 30
		}
		b, _ := json.Marshal(map[string]any{"family": "ranges", "first_steps": prog[:n]})
		res.Sample = b
	}
}

func (w *c20Worker) runParallel(res *runner.CaseResult, idx int) {
	rng := caseRng(w.seed^0xc20a, idx)
	m := newC20Model()
	actors := []types.ID{"0000000000000000000000a1", "0000000000000000000000a2"}
	m.mu.Lock()
	m.push(rng, 5, actors)
	m.mu.Unlock()
	var wg sync.WaitGroup
	var vmu sync.Mutex
	var problem string
	stop := make(chan struct{})
	for g := 0; g < 4; g++ {
		wg.Add(1)
		r := rand.New(rand.NewSource(int64(idx*7 + g)))
		go func() {
			defer wg.Done()
			for i := 0; i < 60; i++ {
				select {
				case <-stop:
					return
				default:
				}
				m.mu.Lock()
				h0 := m.head
				m.mu.Unlock()
				from := 1 + r.Int63n(h0)
				to := from + r.Int63n(h0-from+1)
				got, _ := m.read(from, to, false)
				// every operation row of [from,to] that existed at call time must be there, in order
				m.mu.Lock()
				var want []int64
				for s := from; s <= to; s++ {
					if m.truth[s] != nil {
						want = append(want, s)
					}
				}
				m.mu.Unlock()
				var have []int64
				last := int64(0)
				ordered := true
				for _, c := range got {
					if c.ServerSeq <= last {
						ordered = false
					}
					last = c.ServerSeq
					if !c.PresenceOnly() {
						have = append(have, c.ServerSeq)
					}
				}
				vmu.Lock()
				res.AddStat("parallel_reads_checked", 1)
				if !ordered || fmt.Sprint(have) != fmt.Sprint(want) {
					if problem == "" {
						problem = fmt.Sprintf("a reader of [%d,%d] (head %d at call time) got operation rows %v (ordered=%v), the store holds %v", from, to, h0, have, ordered, want)
					}
				}
				vmu.Unlock()
			}
		}()
	}
	wg.Add(1)
	go func() {
		defer wg.Done()
		r := rand.New(rand.NewSource(int64(idx)))
		for i := 0; i < 25; i++ {
			// the pusher holds the document lock in the real server: pushes are serial
			m.mu.Lock()
			m.push(r, 1+r.Intn(3), actors)
			m.mu.Unlock()
		}
	}()
	wg.Wait()
	close(stop)
	if problem != "" {
		res.Violate("parallel-read-wrong", problem, "", map[string]any{"family": "ranges-parallel", "seed": w.seed, "idx": idx})
	}
	res.Hash = fmt.Sprintf("par-%d-%d", w.seed, idx)
	res.Nontrivial = true
}

// ---- snapshots on the real server ----

func (w *c20Worker) runSnapshots(res *runner.CaseResult, idx int, replay *sim.History) {
	rng := caseRng(w.seed^0xc20b, idx)
	g := sim.GenCfg{N: 2 + rng.Intn(2), MaxReps: 4, Steps: 14 + rng.Intn(26), Profile: gen.DefaultProfile(), SplitSyncPct: 5, QuiescePct: 5, MultiEditPct: 10, EditPct: 60}
	if w.tier == "thorough" {
		g.Steps = 14 + rng.Intn(60)
	}
	var vet Vetoed
	g.Guard = makeGuard(Guards{ArrSetMoved: true, InsertBeforeTombstone: true}, &vet)
	cfg := sim.WorldCfg{Snap: []int64{1, 2, 3, 4}[rng.Intn(4)]}
	if replay != nil {
		cfg = replay.Cfg
	}
	proj, err := w.project(cfg.Snap)
	if err != nil {
		res.Inconclusive = err.Error()
		return
	}
	world := sim.NewWorld(w.env, proj, cfg, fmt.Sprintf("c20-%d", idx))
	// competitors for the (2-entry) snapshot cache
	var decoys []*sim.World
	for i := 0; i < 2; i++ {
		d := sim.NewWorld(w.env, proj, sim.WorldCfg{Snap: cfg.Snap}, fmt.Sprintf("c20-%d-decoy%d", idx, i))
		d.Exec(sim.Step{T: "attach", R: 0})
		d.Exec(sim.Step{T: "edit", R: 0, E: gen.InitEdits()})
		d.Exec(sim.Step{T: "sync", R: 0})
		decoys = append(decoys, d)
	}
	ctx := context.Background()
	shadow := document.NewInternalDocument(world.DocKey)
	contents := map[int64]string{}
	applied := int64(0)
	var rows []*database.ChangeInfo
	var fails []sim.Failure
	hrng := caseRng(w.seed^0xc20c, idx)
	probe := func() {
		if len(fails) > 0 {
			return
		}
		di, err := world.DocInfo()
		if err != nil || di == nil {
			return
		}
		log, err := world.ServerLog()
		if err != nil {
			return
		}
		for _, row := range log {
			if row.ServerSeq <= applied {
				continue
			}
			c, err := row.ToChange()
			if err != nil {
				return
			}
			if _, _, err := shadow.ApplyChanges(c); err != nil {
				res.AddStat("shadow_apply_failed_not_judged", 1) // C01/C02 matter
				fails = append(fails, sim.Failure{Kind: "not-judged"})
				return
			}
			applied = row.ServerSeq
			contents[applied] = shadow.Marshal()
			rows = append(rows, row)
		}
		if applied == 0 {
			return
		}
		for k := 0; k < 1+hrng.Intn(4); k++ {
			s := rows[hrng.Intn(len(rows))].ServerSeq
			switch hrng.Intn(5) {
			case 0:
				w.env.BE.Cache.Snapshot.Remove(di.RefKey())
				res.AddStat("evictions", 1)
			case 1:
				for _, d := range decoys {
					if ddi, err := d.DocInfo(); err == nil && ddi != nil {
						_, _ = packs.BuildInternalDocForServerSeq(ctx, w.env.BE, ddi, ddi.ServerSeq)
					}
				}
				res.AddStat("competitor_rebuilds", 1)
			}
			for again := 0; again < 2; again++ {
				doc, err := packs.BuildInternalDocForServerSeq(ctx, w.env.BE, di, s)
				if err != nil {
					fails = append(fails, sim.Failure{Kind: "rebuild-failed", Detail: fmt.Sprintf("BuildInternalDocForServerSeq(%d) with head %d: %v", s, applied, err)})
					return
				}
				res.AddStat("rebuilds_compared", 1)
				if got := doc.Marshal(); got != contents[s] {
					how := "first request"
					if again == 1 {
						how = "second request, after the caller changed the document it had been handed"
					}
					fails = append(fails, sim.Failure{Kind: "cache-served-document-differs", Detail: fmt.Sprintf("BuildInternalDocForServerSeq(%d) (%s, head %d)\n got  %s\n want %s (change-fed shadow of the stored log)", s, how, applied, trunc400(got), trunc400(contents[s]))})
					return
				}
				// scribble on what we were handed, like PushPull does with it
				for _, row := range rows {
					if row.ServerSeq == s+1 {
						if c, err := row.ToChange(); err == nil {
							_, _, _ = doc.ApplyChanges(c)
						}
					}
				}
			}
		}
	}
	// concurrent rebuilds of ONE document: what handlers holding the document's read lock and
	// the lock-free admin reads do. The cache is first made to hold an older state, so that
	// every reader starts from the same cached entry and replays the same tail.
	burst := func() {
		if len(fails) > 0 || len(rows) < 3 {
			return
		}
		di, err := world.DocInfo()
		if err != nil || di == nil {
			return
		}
		old := rows[hrng.Intn(len(rows)-1)].ServerSeq
		if _, err := packs.BuildInternalDocForServerSeq(ctx, w.env.BE, di, old); err != nil {
			return
		}
		head := applied
		const readers = 6
		got := make([]string, readers)
		errs := make([]error, readers)
		var wg sync.WaitGroup
		for i := 0; i < readers; i++ {
			wg.Add(1)
			go func(i int) {
				defer wg.Done()
				doc, err := packs.BuildInternalDocForServerSeq(ctx, w.env.BE, di, head)
				if err != nil {
					errs[i] = err
					return
				}
				got[i] = doc.Marshal()
			}(i)
		}
		wg.Wait()
		after, aerr := packs.BuildInternalDocForServerSeq(ctx, w.env.BE, di, head)
		for i := 0; i < readers; i++ {
			res.AddStat("concurrent_rebuilds_compared", 1)
			if errs[i] != nil {
				fails = append(fails, sim.Failure{Kind: "rebuild-failed", Detail: fmt.Sprintf("one of %d concurrent BuildInternalDocForServerSeq(%d) calls (cache held %d): %v", readers, head, old, errs[i])})
				return
			}
			if got[i] != contents[head] {
				fails = append(fails, sim.Failure{Kind: "cache-served-document-differs", Detail: fmt.Sprintf("one of %d concurrent BuildInternalDocForServerSeq(%d) calls (cache held %d)\n got  %s\n want %s", readers, head, old, trunc400(got[i]), trunc400(contents[head]))})
				return
			}
		}
		if aerr != nil || after.Marshal() != contents[head] {
			fails = append(fails, sim.Failure{Kind: "cache-served-document-differs", Detail: fmt.Sprintf("BuildInternalDocForServerSeq(%d) after %d concurrent rebuilds of the same document (err=%v) differs from the change-fed shadow", head, readers, aerr)})
		}
	}
	world.AfterStep = func(_ *sim.World, st sim.Step, _ *replica.Replica) {
		if st.T == "sync" || st.T == "syncEnd" || st.T == "quiesce" || st.T == "attach" {
			probe()
			if hrng.Intn(4) == 0 {
				burst()
			}
		}
	}
	var h sim.History
	if replay != nil {
		h = *replay
		world.RunHistory(h)
	} else {
		h = world.RunGenerated(caseRng(w.seed, idx), g)
	}
	probe()
	burst()
	if len(fails) == 0 && len(world.Fail) == 0 && applied >= 3 && idx%2 == 0 {
		// epilogue: a compaction rewrites the log (it restarts at server sequence 1); the
		// new generation then outgrows the old one before anything asks for the document
		// again. Whatever the cache still holds is an OLD-generation document under a
		// server sequence the new generation reaches too.
		w.compactionEpilogue(ctx, res, world, applied, &fails)
	}
	res.Hash = runner.HashOf(h.Steps)
	historyStats(res, world, h)
	res.Nontrivial = applied >= 5
	for _, f := range fails {
		if f.Kind != "not-judged" {
			res.Violate(f.Kind, f.Detail, "", h)
		}
	}
	if idx%97 == 2 || len(res.Viol) > 0 {
		res.Sample = sampleOf(h, map[string]any{"family": "snapshots", "snapshot_interval": cfg.Snap, "log_rows": applied})
	}
}

func (w *c20Worker) compactionEpilogue(ctx context.Context, res *runner.CaseResult, world *sim.World, oldHead int64, fails *[]sim.Failure) {
	// the per-step probe compares with the shadow of the OLD generation: off from here on
	world.AfterStep = nil
	di, err := world.DocInfo()
	if err != nil || di == nil {
		return
	}
	// the cache holds the document at the old head
	if _, err := packs.BuildInternalDocForServerSeq(ctx, w.env.BE, di, di.ServerSeq); err != nil {
		return
	}
	ok, err := documents.CompactDocument(ctx, w.env.BE, world.Project, di, true)
	w.env.WaitIdle()
	if err != nil || !ok {
		res.AddStat("epilogue_compaction_failed_not_judged", 1) // C10's matter
		return
	}
	res.AddStat("compactions", 1)
	nrep := len(world.Reps)
	world.Exec(sim.Step{T: "attach", R: nrep})
	if len(world.Fail) > 0 {
		return
	}
	for k := int64(0); k < oldHead+3 && k < 90; k++ {
		world.Exec(sim.Step{T: "edit", R: nrep, E: []gen.Edit{{Op: "obj.set", K: fmt.Sprintf("g2-%d", k%7), V: &gen.Val{T: "int", I: k}}}})
		world.Exec(sim.Step{T: "sync", R: nrep})
	}
	if len(world.Fail) > 0 {
		return
	}
	w.env.WaitIdle()
	di2, err := world.DocInfo()
	if err != nil || di2 == nil {
		return
	}
	log, err := world.ServerLog()
	if err != nil {
		return
	}
	shadow := document.NewInternalDocument(world.DocKey)
	want := map[int64]string{}
	for _, row := range log {
		c, err := row.ToChange()
		if err != nil {
			return
		}
		if _, _, err := shadow.ApplyChanges(c); err != nil {
			res.AddStat("shadow_apply_failed_not_judged", 1)
			return
		}
		want[row.ServerSeq] = shadow.Marshal()
	}
	for _, s := range []int64{di2.ServerSeq, oldHead, oldHead + 1, di2.ServerSeq} {
		if s < 1 || s > di2.ServerSeq {
			continue
		}
		doc, err := packs.BuildInternalDocForServerSeq(ctx, w.env.BE, di2, s)
		if err != nil {
			*fails = append(*fails, sim.Failure{Kind: "rebuild-failed", Detail: fmt.Sprintf("after a compaction: BuildInternalDocForServerSeq(%d) with head %d: %v", s, di2.ServerSeq, err)})
			return
		}
		res.AddStat("rebuilds_compared_after_compaction", 1)
		if got := doc.Marshal(); got != want[s] {
			*fails = append(*fails, sim.Failure{Kind: "cache-served-document-differs", Detail: fmt.Sprintf("after a compaction at old head %d and %d rows of the new generation: BuildInternalDocForServerSeq(%d)\n got  %s\n want %s (change-fed shadow of the stored log)", oldHead, len(log), s, trunc400(got), trunc400(want[s]))})
			return
		}
	}
}

func (w *c20Worker) Run(idx int) runner.CaseResult {
	res := runner.CaseResult{Case: fmt.Sprintf("c20-%d", idx)}
	switch {
	case idx%10 == 1:
		w.runLRU(&res, idx)
	case idx%30 == 4:
		w.runLRUParallel(&res, idx)
	case idx%3 == 2:
		w.runSnapshots(&res, idx, nil)
	case idx%15 == 0:
		w.runParallel(&res, idx)
	default:
		w.runRanges(&res, idx)
	}
	return res
}

func (w *c20Worker) Replay(data json.RawMessage) runner.CaseResult {
	res := runner.CaseResult{Case: "replay"}
	var rp struct {
		Family string `json:"family"`
		Seed   int64  `json:"seed"`
		Idx    int    `json:"idx"`
	}
	if json.Unmarshal(data, &rp) == nil && rp.Family != "" {
		w2 := &c20Worker{w.simWorker}
		old := w.seed
		w.seed = rp.Seed
		defer func() { w.seed = old }()
		if rp.Family == "ranges-parallel" {
			w2.runParallel(&res, rp.Idx)
		} else if rp.Family == "lru" {
			w2.runLRU(&res, rp.Idx)
		} else if rp.Family == "lru-parallel" {
			w2.runLRUParallel(&res, rp.Idx)
		} else {
			w2.runRanges(&res, rp.Idx)
		}
		return res
	}
	var h sim.History
	if err := json.Unmarshal(data, &h); err != nil {
		res.Inconclusive = err.Error()
		return res
	}
	w.runSnapshots(&res, 0, &h)
	return res
}
