package props

import (
	"context"
	"encoding/json"
	"fmt"
	"math/rand"
	"os"
	"path/filepath"
	"runtime"
	"sort"
	"strconv"
	"strings"
	"sync"
	"sync/atomic"
	gotime "time"

	"connectrpc.com/connect"

	"github.com/yorkie-team/yorkie/api/types"
	api "github.com/yorkie-team/yorkie/api/yorkie/v1"
	"github.com/yorkie-team/yorkie/pkg/document"
	yjson "github.com/yorkie-team/yorkie/pkg/document/json"
	"github.com/yorkie-team/yorkie/pkg/document/presence"
	"github.com/yorkie-team/yorkie/pkg/key"
	"github.com/yorkie-team/yorkie/server/backend/database"
	ysync "github.com/yorkie-team/yorkie/server/backend/sync"
	"github.com/yorkie-team/yorkie/server/documents"
	"github.com/yorkie-team/yorkie/server/packs"

	"verif/internal/boot"
	"verif/internal/faultdb"
	"verif/internal/replica"
	"verif/internal/runner"
)

type c16 struct{}

func init() { register(c16{}) }

func (c16) ID() string    { return "C16" }
func (c16) Level() string { return "exploration" }
func (c16) Rule() string {
	return "case = one parallel storm on the real server built with -race: 5..12 goroutine clients x 1..3 documents, each client " +
		"running a seeded mix of Attach (manual sync mode), PushPull (with and without edits, push-only), WatchDocument streams " +
		"opened and cancelled, Detach + re-attach and client Deactivation with documents still attached (the server then detaches " +
		"them through the Cluster service), while background goroutines call documents.CompactDocument (normal and forced), " +
		"BuildInternalDocForServerSeq / admin-style document reads, and the server's own snapshotting (snapshot threshold 3..10) " +
		"and housekeeping (1s interval) run; a Backend.DB decorator and the lock hook inject seeded yields (Gosched / <=2ms " +
		"sleeps) around storage calls and at every lock boundary. Monitors: (1) progress watchdog - a counter of completed " +
		"requests; if it stands still for 30 s while requests are outstanding, the goroutine dump is taken and the case is a " +
		"deadlock violation (goroutines parked in pkg/locker are listed); (2) the race detector's log (scanned by the parent); " +
		"(3) lock-order recorder (verif-tagged hook in server/backend/sync): per goroutine the locks held at every acquisition; " +
		"acquiring doc after doc-pull/doc-attachment/doc-push, doc-pull after doc-attachment/doc-push, or doc-attachment after " +
		"doc-push, or read-locking a key the goroutine already holds, is a violation; (4) every request error other than the " +
		"ones the protocol allows for a racing client (epoch mismatch after a compaction, not-attached after a deactivation) is " +
		"a violation; (5) C04's offline oracle over the recorded RPC events and the stored log of every document, and " +
		"convergence of the replicas still attached after closing rounds. Non-trivial = >=3 clients pushed, >=1 compaction or " +
		"deactivation ran concurrently, >=50 overlapping request pairs. Every second storm runs in a project with an attachment limit, so that the doc-attachment locker is in use."
}
func (c16) Assumptions() []string {
	return []string{"memdb backend, single node (the Cluster service loops back into the same process)",
		"the 30 s no-progress criterion is a logical one (no request completed), the surrounding 6 minute wall-clock watchdog only ends the case as inconclusive",
		"lock order is checked among doc / doc-pull / doc-attachment / doc-push; snapshot and watch-stream locks are recorded but have no documented rank"}
}
func (c16) NumCases(tier string, _ int64) int {
	if tier == "thorough" {
		return 1200
	}
	return 96
}
func (c16) Exhaustive(string) bool { return false }
func (c16) Floors(string) []runner.Floor {
	return []runner.Floor{{Stat: "requests_completed", Min: 4000}, {Stat: "lock_acquisitions_checked", Min: 15000}, {Stat: "compactions_attempted", Min: 100}, {Stat: "watch_streams_opened", Min: 100}, {Stat: "replicas_compared_after_storm", Min: 100}}
}

type c16Worker struct {
	*simWorker
	fdb *faultdb.DB
	yh  *yieldHook
	lm  *lockMonitor
}

func (c16) NewWorker(tier string, seed int64) (runner.Worker, error) {
	sw, err := newSimWorker(tier, seed, boot.Options{})
	if err != nil {
		return nil, err
	}
	w := &c16Worker{simWorker: sw, yh: &yieldHook{}, lm: newLockMonitor()}
	w.fdb = faultdb.Wrap(sw.env.BE.DB)
	sw.env.BE.DB = w.fdb
	w.fdb.SetHook(w.yh)
	return w, nil
}

// ---- lock-order monitor ----

func goid() int64 {
	var buf [64]byte
	n := runtime.Stack(buf[:], false)
	// "goroutine 123 ["
	f := strings.Fields(string(buf[:n]))
	if len(f) < 2 {
		return -1
	}
	id, _ := strconv.ParseInt(f[1], 10, 64)
	return id
}

func lockClass(k string) (string, int) {
	switch {
	case strings.HasPrefix(k, "doc-push-"):
		return "doc-push", 3
	case strings.HasPrefix(k, "doc-attachment-"):
		return "doc-attachment", 2
	case strings.HasPrefix(k, "doc-pull-"):
		return "doc-pull", 1
	case strings.HasPrefix(k, "doc-watchstream-"):
		return "doc-watchstream", -1
	case strings.HasPrefix(k, "snapshot-"):
		return "snapshot", -1
	case strings.HasPrefix(k, "doc-"):
		return "doc", 0
	}
	return "other", -1
}

type heldLock struct {
	key  string
	read bool
}

type lockMonitor struct {
	mu    sync.Mutex
	held  map[int64][]heldLock
	viol  []string
	seen  map[string]bool
	acq   int64
	pairs map[string]int // "held-class -> acquired-class" observed
	on    atomic.Bool
	yield func()
}

func newLockMonitor() *lockMonitor {
	return &lockMonitor{held: map[int64][]heldLock{}, seen: map[string]bool{}, pairs: map[string]int{}}
}

func (m *lockMonitor) reset() {
	m.mu.Lock()
	m.held = map[int64][]heldLock{}
	m.viol = nil
	m.seen = map[string]bool{}
	m.acq = 0
	m.pairs = map[string]int{}
	m.mu.Unlock()
}

func (m *lockMonitor) event(kind, k string) {
	if !m.on.Load() {
		return
	}
	if m.yield != nil && (kind == "wait-w" || kind == "wait-r" || kind == "rel-w" || kind == "rel-r") {
		m.yield()
	}
	g := goid()
	m.mu.Lock()
	defer m.mu.Unlock()
	switch kind {
	case "wait-w", "wait-r":
		// the order is decided when the goroutine starts to wait
		cls, rank := lockClass(k)
		m.acq++
		for _, h := range m.held[g] {
			hc, hr := lockClass(h.key)
			m.pairs[hc+" -> "+cls]++
			if h.key == k {
				sig := fmt.Sprintf("re-entered %s", cls)
				if !m.seen[sig] {
					m.seen[sig] = true
					m.viol = append(m.viol, fmt.Sprintf("lock-reentered: a goroutine that already holds %q (%s) asks for it again (%s); with a writer queued in between this never returns\n%s", k, map[bool]string{true: "read", false: "write"}[h.read], kind, callers()))
				}
			}
			if rank >= 0 && hr >= 0 && hr > rank {
				sig := hc + ">" + cls
				if !m.seen[sig] {
					m.seen[sig] = true
					m.viol = append(m.viol, fmt.Sprintf("lock-order: a goroutine holding %s (%q) acquires %s (%q); the documented order is doc -> doc-pull -> doc-attachment -> doc-push\n%s", hc, h.key, cls, k, callers()))
				}
			}
		}
	case "acq-w", "acq-try":
		m.held[g] = append(m.held[g], heldLock{k, false})
	case "acq-r":
		m.held[g] = append(m.held[g], heldLock{k, true})
	case "rel-w", "rel-r":
		hs := m.held[g]
		for i := len(hs) - 1; i >= 0; i-- {
			if hs[i].key == k {
				hs = append(hs[:i], hs[i+1:]...)
				break
			}
		}
		if len(hs) == 0 {
			delete(m.held, g)
		} else {
			m.held[g] = hs
		}
	}
}

func callers() string {
	pc := make([]uintptr, 24)
	n := runtime.Callers(4, pc)
	fr := runtime.CallersFrames(pc[:n])
	var sb strings.Builder
	for i := 0; i < 12; i++ {
		f, more := fr.Next()
		if strings.Contains(f.Function, "yorkie") && !strings.Contains(f.Function, "backend/sync.") {
			fmt.Fprintf(&sb, "    %s (%s:%d)\n", f.Function, filepath.Base(f.File), f.Line)
		}
		if !more {
			break
		}
	}
	return sb.String()
}

// ---- the storm ----

type c16Stats struct {
	done        atomic.Int64
	outstanding atomic.Int64
}

func allowedRacingError(err error) bool {
	if err == nil {
		return true
	}
	s := strings.ToLower(err.Error())
	for _, ok := range []string{"epoch", "not attached", "not activated", "deactivated", "document is not attached", "client is not", "canceled", "removed"} {
		if strings.Contains(s, ok) {
			return true
		}
	}
	return false
}

func (w *c16Worker) Run(idx int) runner.CaseResult {
	res := runner.CaseResult{Case: fmt.Sprintf("c16-%d", idx)}
	w.storm(&res, idx)
	return res
}

func (w *c16Worker) storm(res *runner.CaseResult, idx int) {
	rng := caseRng(w.seed^0xc16, idx)
	nCli := 5 + rng.Intn(8)
	nDoc := 1 + rng.Intn(3)
	iters := 14 + rng.Intn(16)
	if w.tier == "thorough" {
		iters = 14 + rng.Intn(40)
	}
	snap := int64(3 + rng.Intn(8))
	proj, err := w.project(snap)
	if idx%2 == 1 {
		// with an attachment limit (never reached) attach / detach take the doc-attachment
		// locker as well: the fourth named locker is otherwise never acquired
		proj, err = w.projectLimited(snap)
		res.AddStat("storms_with_the_attachment_locker_in_use", 1)
	}
	if err != nil {
		res.Inconclusive = err.Error()
		return
	}
	ctx := context.Background()
	stamp := gotime.Now().UnixNano() % 1000000
	docKeys := make([]key.Key, nDoc)
	for i := range docKeys {
		docKeys[i] = key.Key(fmt.Sprintf("c16-%d-%d-%d-d%d", w.seed, idx, stamp, i))
	}
	rec := newRecorder()
	st := &c16Stats{}
	w.lm.reset()
	w.yh.seed.Store(w.seed*7919 + int64(idx))
	w.lm.yield = w.yh.jitter
	ysync.SetVerifLockRecorder(w.lm.event)
	w.lm.on.Store(true)
	w.yh.on.Store(true)
	defer func() {
		w.yh.on.Store(false)
		w.lm.on.Store(false)
		ysync.SetVerifLockRecorder(nil)
	}()

	var failMu sync.Mutex
	var fails []string
	fail := func(s string) {
		failMu.Lock()
		if len(fails) < 6 {
			fails = append(fails, s)
		}
		failMu.Unlock()
	}
	call := func(what string, f func() error) error {
		st.outstanding.Add(1)
		err := f()
		st.outstanding.Add(-1)
		st.done.Add(1)
		if !allowedRacingError(err) {
			fail(what + ": " + err.Error())
		}
		return err
	}

	type cli struct {
		reps []*replica.Replica // one replica (document object) per document this client uses
		key  string
	}
	clients := make([]*cli, nCli)
	var watches atomic.Int64
	var watchEvents atomic.Int64
	var deactivations, compactions, compacted, housekeepings atomic.Int64
	deactivated := map[string]bool{}
	var deactMu sync.Mutex
	var cwg, bwg sync.WaitGroup // clients (and their watch streams) / background load
	start := make(chan struct{})
	stopBg := make(chan struct{})

	for i := 0; i < nCli; i++ {
		i := i
		cwg.Add(1)
		go func() {
			defer cwg.Done()
			lr := rand.New(rand.NewSource(w.seed*1000003 + int64(idx)*131 + int64(i)))
			ck := fmt.Sprintf("c16-%d-%d-%d-c%d", w.seed, idx, stamp, i)
			c := &cli{key: ck}
			clients[i] = c
			// one Replica per (client, document): they share the activated identity
			lead := replica.New(fmt.Sprintf("p%d", i), proj.PublicKey, ck, w.env.RPC(proj.PublicKey))
			if call("activate", func() error { return lead.Activate(ctx) }) != nil {
				return
			}
			mine := lr.Perm(nDoc)[:1+lr.Intn(nDoc)]
			<-start
			for _, di := range mine {
				r := replica.New(fmt.Sprintf("p%d.d%d", i, di), proj.PublicKey, ck, w.env.RPC(proj.PublicKey))
				r.ID, r.Activated = lead.ID, true
				r.Obs = rec
				if call("attach", func() error {
					return r.Attach(ctx, docKeys[di], replica.AttachOpts{Presence: map[string]string{"n": r.Name}})
				}) != nil {
					continue
				}
				c.reps = append(c.reps, r)
			}
			uid := 0
			var cancels []context.CancelFunc
			defer func() {
				for _, cf := range cancels {
					cf()
				}
			}()
			for it := 0; it < iters && len(c.reps) > 0; it++ {
				r := c.reps[lr.Intn(len(c.reps))]
				if r.Doc == nil || r.Doc.Status() != document.StatusAttached {
					continue
				}
				switch x := lr.Intn(100); {
				case x < 62:
					for e := lr.Intn(4); e > 0; e-- {
						uid++
						v := fmt.Sprintf("%s-%d", r.Name, uid)
						_ = r.Update(func(root *yjson.Object, p *presence.Presence) error {
							root.SetString(r.Name, v)
							if lr.Intn(4) == 0 {
								p.Set("u", v)
							}
							return nil
						})
					}
					_ = call("sync", func() error { return r.Sync(ctx, lr.Intn(100) < 12) })
				case x < 76:
					// a watch stream that lives for a while
					wctx, cancel := context.WithCancel(ctx)
					cancels = append(cancels, cancel)
					watches.Add(1)
					cwg.Add(1)
					// the identifiers are read HERE: the client goroutine goes on to detach and
					// re-attach, which replaces r.Doc / r.DocID
					cid, did, dk := r.ID.String(), r.DocID, string(r.Doc.Key())
					go func(r *replica.Replica) {
						defer cwg.Done()
						req := connect.NewRequest(&api.WatchDocumentRequest{ClientId: cid, DocumentId: did})
						req.Header().Add(types.ShardKey, proj.PublicKey+"/"+dk)
						stream, err := r.RPC.WatchDocument(wctx, req)
						if err != nil {
							if !allowedRacingError(err) {
								fail("watch: " + err.Error())
							}
							return
						}
						for stream.Receive() {
							watchEvents.Add(1)
						}
						_ = stream.Close()
					}(r)
					if len(cancels) > 2 {
						cancels[0]()
						cancels = cancels[1:]
					}
				case x < 86:
					if call("detach", func() error { return r.Detach(ctx) }) == nil {
						_ = call("re-attach", func() error {
							return r.Attach(ctx, r.Doc.Key(), replica.AttachOpts{Presence: map[string]string{"n": r.Name}})
						})
					}
				case x < 90 && it > iters/2:
					// the client goes away with documents attached: the server detaches them
					deactivations.Add(1)
					deactMu.Lock()
					deactivated[lead.ID.String()] = true
					deactMu.Unlock()
					_ = call("deactivate", func() error { return lead.Deactivate(ctx) })
					for _, rr := range c.reps {
						if rr.Doc != nil {
							rr.Doc.SetStatus(document.StatusDetached)
						}
					}
					return
				default:
					_ = call("sync", func() error { return r.Sync(ctx, false) })
				}
			}
		}()
	}
	// background: compaction and rebuilds
	for b := 0; b < 2; b++ {
		b := b
		bwg.Add(1)
		go func() {
			defer bwg.Done()
			lr := rand.New(rand.NewSource(w.seed*31 + int64(idx)*17 + int64(b)))
			<-start
			for {
				select {
				case <-stopBg:
					return
				default:
				}
				dk := docKeys[lr.Intn(nDoc)]
				di, err := w.env.BE.DB.FindDocInfoByKey(ctx, proj.ID, dk)
				if err == nil && di != nil {
					switch x := lr.Intn(12); {
					case x == 0:
						// what the housekeeping tasks run (the worker's server keeps its 24h
						// interval; the tasks are called from here instead)
						housekeepings.Add(1)
						_, _, _, _, _ = documents.CompactDocuments(ctx, w.env.BE, 20, 5, 0, database.ZeroID)
					case x < 4:
						// an admin-style read, the way AdminService.GetDocument does it on this
						// node: document info and rebuild under the document's read lock. (Read
						// without it, the info can be one compaction old by the time the
						// rebuild runs; the rebuilt document then claims a server sequence of
						// the previous generation, is cached under it, and later rebuilds on
						// top of it skip changes. Seen once as divergence-after-storm; on a
						// single node every production caller holds the lock.)
						func() {
							locker := w.env.BE.Lockers.LockerWithRLock(packs.DocKey(proj.ID, dk))
							defer locker.RUnlock()
							if di2, err := w.env.BE.DB.FindDocInfoByKey(ctx, proj.ID, dk); err == nil && di2 != nil {
								_, _ = packs.BuildInternalDocForServerSeq(ctx, w.env.BE, di2, di2.ServerSeq)
							}
						}()
					default:
						compactions.Add(1)
						ok, err := documents.CompactDocument(ctx, w.env.BE, proj, di, lr.Intn(12) == 0)
						if ok {
							compacted.Add(1)
						}
						if err != nil && !allowedRacingError(err) && !strings.Contains(err.Error(), "attached") {
							fail("compact: " + err.Error())
						}
					}
				}
				gotime.Sleep(gotime.Duration(2+lr.Intn(15)) * gotime.Millisecond)
			}
		}()
	}
	close(start)

	// progress watchdog: the storm is over when every client goroutine (and watch stream) ended
	finished := make(chan struct{})
	go func() { cwg.Wait(); close(finished) }()
	deadlock := ""
	lastDone, lastChange := int64(-1), gotime.Now()
	deadline := gotime.Now().Add(6 * gotime.Minute)
	stopOnce := sync.Once{}
	for deadlock == "" {
		select {
		case <-finished:
			goto over
		case <-gotime.After(gotime.Second):
		}
		if d := st.done.Load(); d != lastDone {
			lastDone, lastChange = d, gotime.Now()
		}
		if gotime.Since(lastChange) > 30*gotime.Second && st.outstanding.Load() > 0 {
			buf := make([]byte, 4<<20)
			n := runtime.Stack(buf, true)
			deadlock = summarizeParked(string(buf[:n]))
			dump := filepath.Join(runner.Root(), "replays", fmt.Sprintf("C16-goroutines-seed%d-case%d.txt", w.seed, idx))
			_ = os.MkdirAll(filepath.Dir(dump), 0o755)
			_ = os.WriteFile(dump, buf[:n], 0o644)
			deadlock += "\nfull goroutine dump: " + dump
		}
		if gotime.Now().After(deadline) {
			res.Inconclusive = "the storm did not finish within the 6 minute wall-clock watchdog although requests kept completing"
			stopOnce.Do(func() { close(stopBg) })
			return
		}
	}
over:
	stopOnce.Do(func() { close(stopBg) })
	if deadlock == "" {
		bwg.Wait()
	}
	w.yh.on.Store(false)
	res.AddStat("requests_completed", st.done.Load())
	res.AddStat("watch_streams_opened", watches.Load())
	res.AddStat("watch_events_received", watchEvents.Load())
	res.AddStat("deactivations_with_attached_documents", deactivations.Load())
	res.AddStat("compactions_attempted", compactions.Load())
	res.AddStat("compactions_succeeded", compacted.Load())
	res.AddStat("housekeeping_compaction_passes", housekeepings.Load())
	w.lm.mu.Lock()
	res.AddStat("lock_acquisitions_checked", w.lm.acq)
	lockViol := append([]string(nil), w.lm.viol...)
	for p, n := range w.lm.pairs {
		res.AddSet("lock_nestings_seen", p)
		_ = n
	}
	w.lm.mu.Unlock()
	replay := map[string]any{"seed": w.seed, "idx": idx, "clients": nCli, "documents": nDoc, "iterations": iters}
	if deadlock != "" {
		for _, v := range lockViol {
			res.Violate(v[:strings.Index(v, ":")], v, "", replay)
		}
		res.Violate("deadlock", fmt.Sprintf("no client request completed for 30 s while %d were outstanding:\n%s", st.outstanding.Load(), deadlock), "", replay)
		// the server is wedged: the worker must not be reused
		go func() { gotime.Sleep(2 * gotime.Second); os.Exit(3) }()
		return
	}
	for _, v := range lockViol {
		kind := v[:strings.Index(v, ":")]
		res.Violate(kind, v, "", replay)
	}
	for _, f := range fails {
		res.Violate("request-failed", f, "", replay)
	}
	w.env.WaitIdle()
	// closing rounds on what is still attached, then the C04 oracle per document
	// a replica left behind by a compaction (epoch mismatch) or whose client was deactivated
	// cannot sync any more; only the ones whose closing syncs succeed are compared
	current := map[*replica.Replica]bool{}
	for round := 0; round < 2; round++ {
		for _, c := range clients {
			if c == nil {
				continue
			}
			for _, r := range c.reps {
				if r.Doc != nil && r.Doc.Status() == document.StatusAttached && r.Activated {
					err := r.Sync(ctx, false)
					if err != nil && !allowedRacingError(err) {
						res.Violate("request-failed", r.Name+" closing sync: "+err.Error(), "", replay)
					}
					current[r] = err == nil
				}
			}
		}
	}
	w.env.WaitIdle()
	rec.mu.Lock()
	evs := append([]rpcEv(nil), rec.evs...)
	rec.mu.Unlock()
	res.AddStat("rpc_events", int64(len(evs)))
	pushers := map[string]bool{}
	for di, dk := range docKeys {
		info, err := w.env.BE.DB.FindDocInfoByKey(ctx, proj.ID, dk)
		if err != nil || info == nil {
			continue
		}
		if info.Epoch == 0 {
			log, err := w.env.BE.DB.FindChangeInfosBetweenServerSeqs(ctx, info.RefKey(), 1, 1<<62)
			if err == nil {
				rows := toRows(log)
				var mine []rpcEv
				for _, e := range evs {
					if !strings.HasSuffix(e.Client, fmt.Sprintf(".d%d", di)) {
						continue
					}
					if e.Err != "" && allowedRacingError(fmt.Errorf("%s", e.Err)) {
						continue // refused without effect (stale epoch, client gone)
					}
					mine = append(mine, e)
				}
				serverDetachedActors = deactivated
				for _, b := range checkLogAndResponses(mine, rows, res) {
					res.Violate(b[:strings.Index(b, ":")], fmt.Sprintf("document %d: %s", di, b), "", replay)
				}
				for _, r := range rows {
					pushers[r.Actor] = true
				}
			}
		} else {
			res.AddStat("documents_compacted_log_oracle_skipped", 1)
		}
		// convergence of the replicas still attached to this document
		var ref, refName string
		for _, c := range clients {
			if c == nil {
				continue
			}
			for _, r := range c.reps {
				if r.Doc == nil || r.Doc.Status() != document.StatusAttached || r.Doc.Key() != dk || !current[r] || r.Doc.HasLocalChanges() {
					continue
				}
				res.AddStat("replicas_compared_after_storm", 1)
				m := r.Doc.Marshal()
				if ref == "" {
					ref, refName = m, r.Name
				} else if m != ref {
					res.Violate("divergence-after-storm", fmt.Sprintf("document %d: %s shows %s\n%s shows %s", di, r.Name, trunc400(m), refName, trunc400(ref)), "", replay)
				}
			}
		}
	}
	res.Hash = runner.HashOf(replay)
	res.Nontrivial = st.done.Load() >= 30 && (compactions.Load() > 0 || deactivations.Load() > 0)
	if idx%7 == 0 || len(res.Viol) > 0 {
		var nest []string
		w.lm.mu.Lock()
		for p, n := range w.lm.pairs {
			nest = append(nest, fmt.Sprintf("%s x%d", p, n))
		}
		w.lm.mu.Unlock()
		sort.Strings(nest)
		b, _ := json.Marshal(map[string]any{"clients": nCli, "documents": nDoc, "iterations": iters, "snapshot_threshold": snap,
			"requests": st.done.Load(), "watch_streams": watches.Load(), "compactions": compactions.Load(), "deactivations": deactivations.Load(), "lock_nestings": nest})
		res.Sample = b
	}
}

// summarizeParked lists the goroutines of a dump that are parked in a lock of pkg/locker or in a storage call.
func summarizeParked(dump string) string {
	var out []string
	for _, g := range strings.Split(dump, "\n\n") {
		if !strings.Contains(g, "pkg/locker") && !strings.Contains(g, "sync.(*RWMutex)") {
			continue
		}
		lines := strings.Split(g, "\n")
		var keep []string
		keep = append(keep, lines[0])
		for _, l := range lines[1:] {
			if strings.Contains(l, "yorkie") && !strings.HasPrefix(l, "\t") {
				keep = append(keep, "    "+strings.TrimSpace(l))
			}
			if len(keep) > 9 {
				break
			}
		}
		out = append(out, strings.Join(keep, "\n"))
		if len(out) >= 8 {
			break
		}
	}
	return strings.Join(out, "\n")
}

func (w *c16Worker) Replay(data json.RawMessage) runner.CaseResult {
	res := runner.CaseResult{Case: "replay"}
	var rp struct {
		Seed int64 `json:"seed"`
		Idx  int   `json:"idx"`
	}
	_ = json.Unmarshal(data, &rp)
	old := w.seed
	w.seed = rp.Seed
	defer func() { w.seed = old }()
	// schedules are not replayable exactly; the same workload is run again (several times by the caller)
	w.storm(&res, rp.Idx)
	return res
}
