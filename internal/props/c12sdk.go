package props

import (
	"context"
	"encoding/json"
	"fmt"
	"math/rand"
	"os"
	"sort"
	gotime "time"

	"github.com/yorkie-team/yorkie/client"
	"github.com/yorkie-team/yorkie/pkg/document"
	yjson "github.com/yorkie-team/yorkie/pkg/document/json"
	"github.com/yorkie-team/yorkie/pkg/document/presence"
	"github.com/yorkie-team/yorkie/pkg/key"

	"verif/internal/runner"
)

// The sdk family drives the REAL client.Client (client/client.go) instead of the replica
// driver every other family uses: attachDocument / detachDocument / pushPullChanges are
// code the properties anchor in, and the replica driver only mirrors them.

type sdkStep struct {
	T        string            `json:"t"` // attach update sync detach deactivate
	C        int               `json:"c"`
	Pres     map[string]string `json:"pres,omitempty"`    // attach: initial presence; update: keys to set
	NoPres   bool              `json:"no_pres,omitempty"` // attach: WithDisablePresence
	K        string            `json:"k,omitempty"`       // update: root.SetString(K, V)
	V        string            `json:"v,omitempty"`
	PushOnly bool              `json:"push_only,omitempty"`
}

func (s sdkStep) String() string {
	switch s.T {
	case "attach":
		return fmt.Sprintf("c%d.attach(presence=%v, WithDisablePresence=%v)", s.C, s.Pres, s.NoPres)
	case "update":
		return fmt.Sprintf("c%d.update(set %q=%q, presence %v)", s.C, s.K, s.V, s.Pres)
	case "sync":
		if s.PushOnly {
			return fmt.Sprintf("c%d.sync(push-only)", s.C)
		}
	}
	return fmt.Sprintf("c%d.%s", s.C, s.T)
}

type sdkReplay struct {
	Family  string    `json:"family"`
	Seed    int64     `json:"seed"`
	Idx     int       `json:"idx"`
	Snap    int64     `json:"snap"`
	Clients int       `json:"clients"`
	Steps   []sdkStep `json:"steps"`
}

type sdkClient struct {
	c      *client.Client
	doc    *document.Document
	active bool
}

func presEqual(a, b presence.Data) bool {
	if len(a) != len(b) {
		return false
	}
	for k, v := range a {
		if w, ok := b[k]; !ok || w != v {
			return false
		}
	}
	return true
}

func presDataString(p presence.Data) string {
	ks := make([]string, 0, len(p))
	for k := range p {
		ks = append(ks, k)
	}
	sort.Strings(ks)
	s := "{"
	for _, k := range ks {
		s += fmt.Sprintf("%s:%q ", k, p[k])
	}
	return s + "}"
}

// runSDK: a sequential schedule of real clients in manual sync mode on one document.
func (w *c12Worker) runSDK(res *runner.CaseResult, idx int, replay *sdkReplay) {
	rng := caseRng(w.seed^0xc125d, idx)
	rp := sdkReplay{Family: "sdk", Seed: w.seed, Idx: idx, Snap: []int64{0, 4}[rng.Intn(2)], Clients: 2 + rng.Intn(3)}
	if replay != nil {
		rp = *replay
	}
	proj, err := w.project(rp.Snap)
	if err != nil {
		res.Inconclusive = err.Error()
		return
	}
	ctx, cancel := context.WithTimeout(context.Background(), 2*gotime.Minute)
	defer cancel()
	docKey := key.Key(fmt.Sprintf("c12sdk-%d-%d-%d", w.seed, idx, gotime.Now().UnixNano()%1000000000))
	cs := make([]*sdkClient, rp.Clients)
	for i := range cs {
		c, err := client.Dial(w.env.Addr, client.WithAPIKey(proj.PublicKey), func(o *client.Options) { o.Key = fmt.Sprintf("%s-c%d", docKey, i) })
		if err != nil {
			res.Inconclusive = "dial: " + err.Error()
			return
		}
		defer func() { _ = c.Close() }()
		if err := c.Activate(ctx); err != nil {
			res.Inconclusive = "activate: " + err.Error()
			return
		}
		cs[i] = &sdkClient{c: c, active: true}
	}
	var done []sdkStep
	viol := func(kind, detail string) {
		r := rp
		r.Steps = done
		var prog string
		for _, s := range done {
			prog += "\n  " + s.String()
		}
		res.Violate(kind, detail+"\nschedule:"+prog, "", r)
	}
	docNoPres, created := false, false
	presSets := 0
	exec := func(st sdkStep) bool {
		done = append(done, st)
		sc := cs[st.C]
		var err error
		switch st.T {
		case "attach":
			d := document.New(docKey)
			var opts []interface{}
			if st.Pres != nil {
				opts = append(opts, client.WithPresence(presence.Data(st.Pres)))
			}
			if st.NoPres {
				opts = append(opts, client.WithDisablePresence())
			}
			if err = sc.c.Attach(ctx, d, opts...); err == nil {
				sc.doc = d
				if !created {
					created, docNoPres = true, st.NoPres
				}
			}
		case "update":
			err = sc.doc.Update(func(root *yjson.Object, p *presence.Presence) error {
				if st.K != "" {
					root.SetString(st.K, st.V)
				}
				for k, v := range st.Pres {
					p.Set(k, v)
				}
				return nil
			})
			if len(st.Pres) > 0 {
				presSets++
			}
		case "sync":
			o := client.WithKey(docKey)
			if st.PushOnly {
				o = o.WithPushOnly()
			}
			err = sc.c.Sync(ctx, o)
		case "detach":
			if err = sc.c.Detach(ctx, sc.doc); err == nil {
				sc.doc = nil
			}
		case "deactivate":
			if err = sc.c.Deactivate(ctx); err == nil {
				sc.active, sc.doc = false, nil
			}
		}
		if os.Getenv("VERIF_TRACE") != "" {
			line := "TRACE " + st.String() + " =>"
			for i, x := range cs {
				if x.doc != nil {
					line += fmt.Sprintf(" c%d[my=%s all=%d]", i, presDataString(x.doc.MyPresence()), len(x.doc.AllPresences()))
				}
			}
			fmt.Println(line, "err:", err)
		}
		res.AddStat("sdk_calls", 1)
		res.AddSet("sdk_call_kinds", st.T)
		if err != nil {
			viol("sdk-call-failed", fmt.Sprintf("%s returned %v in a fault-free sequential schedule", st.String(), err))
			return false
		}
		return true
	}
	randPres := func() map[string]string {
		m := map[string]string{}
		for _, k := range []string{"cur", "name", "sel"}[:1+rng.Intn(3)] {
			m[k] = fmt.Sprint(rng.Intn(50))
		}
		return m
	}
	if replay != nil {
		for _, st := range rp.Steps {
			if !exec(st) {
				return
			}
		}
	} else {
		firstNoPres := rng.Intn(100) < 35
		n := 12 + rng.Intn(30)
		for s := 0; s < n; s++ {
			ci := rng.Intn(len(cs))
			sc := cs[ci]
			if !sc.active {
				continue
			}
			var st sdkStep
			switch {
			case sc.doc == nil:
				st = sdkStep{T: "attach", C: ci}
				if rng.Intn(100) < 70 {
					st.Pres = randPres()
				}
				if !created {
					st.NoPres = firstNoPres
				} else if rng.Intn(100) < 40 {
					// later attachers ask for whatever they like; the server's answer counts
					st.NoPres = !docNoPres
				} else {
					st.NoPres = docNoPres
				}
				if st.NoPres {
					st.Pres = nil
				}
			default:
				switch x := rng.Intn(100); {
				case x < 45:
					st = sdkStep{T: "update", C: ci}
					switch rng.Intn(4) {
					case 0: // presence only
						st.Pres = randPres()
					case 1: // edit and presence in one change
						st.K, st.V, st.Pres = fmt.Sprintf("k%d", rng.Intn(4)), fmt.Sprintf("c%d-%d", ci, s), randPres()
					default:
						st.K, st.V = fmt.Sprintf("k%d", rng.Intn(4)), fmt.Sprintf("c%d-%d", ci, s)
					}
				case x < 85:
					st = sdkStep{T: "sync", C: ci, PushOnly: rng.Intn(100) < 15}
				case x < 94:
					st = sdkStep{T: "detach", C: ci}
				case x < 96:
					st = sdkStep{T: "deactivate", C: ci}
				default:
					st = sdkStep{T: "sync", C: ci}
				}
			}
			if !exec(st) {
				return
			}
		}
		// quiescence: everybody who is attached syncs three times
		for round := 0; round < 3; round++ {
			for ci, sc := range cs {
				if sc.active && sc.doc != nil {
					if !exec(sdkStep{T: "sync", C: ci}) {
						return
					}
				}
			}
		}
	}
	w.env.WaitIdle()
	var att []*sdkClient
	for _, sc := range cs {
		if sc.active && sc.doc != nil {
			att = append(att, sc)
		}
	}
	res.AddStat("sdk_cases", 1)
	res.Hash = runner.HashOf(done)
	res.Nontrivial = len(att) >= 2 && presSets > 0
	ids := map[string]bool{}
	for _, a := range att {
		ids[a.c.ID().String()] = true
	}
	for i, a := range att {
		if i > 0 {
			res.AddStat("sdk_content_comparisons", 1)
			if x, y := a.doc.Marshal(), att[0].doc.Marshal(); x != y {
				viol("sdk-replicas-diverged", fmt.Sprintf("after three quiescent rounds:\n %s\n %s", y, x))
				return
			}
		}
		all := a.doc.AllPresences()
		if docNoPres {
			res.AddStat("sdk_presenceless_views_checked", 1)
			if len(all) != 0 || len(a.doc.MyPresence()) != 0 {
				viol("presence-on-presenceless-document", fmt.Sprintf("the document was created with disable_presence; client %s (attached through client.Client) shows AllPresences()=%d entries, MyPresence()=%s",
					a.c.ID(), len(all), presDataString(a.doc.MyPresence())))
				return
			}
			continue
		}
		for id, p := range all {
			if !ids[id] && len(p) > 0 {
				viol("presence-of-departed-client-survives", fmt.Sprintf("client %s still shows presence %s of %s, which is no longer attached", a.c.ID(), presDataString(p), id))
				return
			}
		}
		for _, b := range att {
			res.AddStat("sdk_presence_comparisons", 1)
			want := b.doc.MyPresence()
			got := all[b.c.ID().String()]
			if !presEqual(want, got) {
				viol("presence-views-differ", fmt.Sprintf("client %s shows presence %s for %s, whose own view is %s", a.c.ID(), presDataString(got), b.c.ID(), presDataString(want)))
				return
			}
		}
	}
	if docNoPres && created {
		// the stored log of a presenceless document holds no presence
		if di, err := w.env.BE.DB.FindDocInfoByKey(ctx, proj.ID, docKey); err == nil {
			if infos, err := w.env.BE.DB.FindChangeInfosBetweenServerSeqs(ctx, di.RefKey(), 1, 1<<62); err == nil {
				for _, ci := range infos {
					if ci.PresenceChange != nil {
						viol("presence-stored", fmt.Sprintf("row %d of the presenceless document's log carries a presence change", ci.ServerSeq))
						return
					}
				}
			}
		}
	}
	if idx%199 == 7 {
		var prog []string
		for i, s := range done {
			if i < 25 {
				prog = append(prog, s.String())
			}
		}
		b, _ := json.Marshal(map[string]any{"family": "sdk", "disable_presence": docNoPres, "clients": rp.Clients, "first_calls": prog})
		res.Sample = b
	}
}

var _ = rand.Int
