package props

import (
	"encoding/json"
	"errors"
	"fmt"
	"math/rand"
	"os"
	"runtime/debug"
	"sort"
	"strings"

	"github.com/yorkie-team/yorkie/api/types"
	"github.com/yorkie-team/yorkie/pkg/document"
	"github.com/yorkie-team/yorkie/pkg/document/crdt"
	yjson "github.com/yorkie-team/yorkie/pkg/document/json"
	"github.com/yorkie-team/yorkie/pkg/document/presence"
	"github.com/yorkie-team/yorkie/pkg/document/time"

	"verif/internal/gen"
	"verif/internal/runner"
)

type c08 struct{}

func init() { register(c08{}) }

func (c08) ID() string    { return "C08" }
func (c08) Level() string { return "exploration" }
func (c08) Rule() string {
	return "case = a history on one Document (in-process subject + peer exchanging changes through the protobuf codec): successful " +
		"updates (1-3 API calls + sometimes a presence change), remote packs of concurrent peer edits, GC with the common vector, " +
		"snapshot application, undo/redo. For a chosen successful k-call callback every prefix j<=k is first re-run as a FAILING " +
		"callback in four ways: returns an error after j calls; panics after j calls (recovered by the caller); makes the attached " +
		"schema rule fail; exceeds MaxSizeLimit. Oracle after a failed Update: Marshal(), Root().Marshal(), the pending change pack " +
		"(number of changes, checkpoint, version vector), undo stack depth, CanUndo/CanRedo, GarbageLen, AllPresences equal " +
		"their pre-call values, and the NEXT successful update yields the same document and the same change (clock, operation " +
		"count) as on a twin document that never saw the failure. After EVERY step: Root() (user-visible copy) marshals exactly " +
		"like the authoritative document. Non-trivial = >=3 failing callbacks injected and >=1 remote/snapshot/GC/undo step."
}
func (c08) Assumptions() []string {
	return []string{"single-goroutine use of the Document", "known-finding fences of the array/RGA findings active in the generator"}
}
func (c08) NumCases(tier string, _ int64) int {
	if tier == "thorough" {
		return 100000
	}
	return 12000
}
func (c08) Exhaustive(string) bool { return false }
func (c08) Floors(string) []runner.Floor {
	return []runner.Floor{{Stat: "failing_callbacks", Min: 5000}, {Stat: "clone_root_comparisons", Min: 50000}}
}

type c08Worker struct {
	tier string
	seed int64
}

func (c08) NewWorker(tier string, seed int64) (runner.Worker, error) {
	return &c08Worker{tier: tier, seed: seed}, nil
}
func (w *c08Worker) Close() {}

type docState struct {
	marshal, root string
	nChanges      int
	cp            string
	vv            string
	undoLen       int
	canUndo       bool
	canRedo       bool
	garbage       int
	pres          string
	lastChange    string
}

func presString(d *document.Document) string {
	m := d.AllPresences()
	var ks []string
	for k := range m {
		ks = append(ks, k)
	}
	sort.Strings(ks)
	var sb strings.Builder
	for _, k := range ks {
		b, _ := json.Marshal(m[k])
		fmt.Fprintf(&sb, "%s=%s;", k, b)
	}
	return sb.String()
}

func snapState(d *document.Document) docState {
	pack := d.CreateChangePack()
	st := docState{
		marshal:  d.Marshal(),
		root:     d.Root().Marshal(),
		nChanges: len(pack.Changes),
		cp:       pack.Checkpoint.String(),
		vv:       pack.VersionVector.Marshal(),
		undoLen:  d.UndoStackLenForTest(),
		canUndo:  d.CanUndo(),
		canRedo:  d.CanRedo(),
		garbage:  d.GarbageLen(),
		pres:     presString(d),
	}
	if n := len(pack.Changes); n > 0 {
		c := pack.Changes[n-1]
		st.lastChange = fmt.Sprintf("cseq=%d lamport=%d vv=%s ops=%d pres=%v", c.ClientSeq(), c.ID().Lamport(), c.ID().VersionVector().Marshal(), len(c.Operations()), c.PresenceChange() != nil)
	}
	return st
}

func (a docState) diff(b docState) string {
	var out []string
	chk := func(name string, x, y any) {
		if fmt.Sprint(x) != fmt.Sprint(y) {
			out = append(out, fmt.Sprintf("%s: before %v, after %v", name, x, y))
		}
	}
	chk("Marshal()", a.marshal, b.marshal)
	chk("Root().Marshal()", a.root, b.root)
	chk("pending changes", a.nChanges, b.nChanges)
	chk("checkpoint of the pack", a.cp, b.cp)
	chk("version vector", a.vv, b.vv)
	chk("undo stack depth", a.undoLen, b.undoLen)
	chk("CanUndo", a.canUndo, b.canUndo)
	chk("CanRedo", a.canRedo, b.canRedo)
	chk("GarbageLen", a.garbage, b.garbage)
	chk("AllPresences", a.pres, b.pres)
	return strings.Join(out, "; ")
}

var errCallback = errors.New("verif: callback fails on purpose")

// failingUpdate runs es[:j] and then fails in the given way. It returns the error Update returned.
func failingUpdate(d *document.Document, es []gen.Edit, j int, how string, pres map[string]string) (err error) {
	defer func() {
		if x := recover(); x != nil {
			err = fmt.Errorf("recovered panic: %v", x)
		}
	}()
	oldLimit, oldRules := d.MaxSizeLimit, d.SchemaRules
	defer func() { d.MaxSizeLimit, d.SchemaRules = oldLimit, oldRules }()
	switch how {
	case "schema":
		d.SchemaRules = []types.Rule{{Path: "$.guard", Type: "string"}}
	case "size":
		ds := d.DocSize()
		// a limit of 0 means "no limit"; an empty document has total size 0
		d.MaxSizeLimit = max(1, ds.Total())
	}
	return d.Update(func(root *yjson.Object, p *presence.Presence) error {
		if pres != nil {
			for k, v := range pres {
				p.Set(k, v)
			}
		}
		for i := 0; i < j; i++ {
			if err := gen.Apply(root, p, &es[i]); err != nil {
				return err
			}
		}
		switch how {
		case "error":
			return errCallback
		case "panic":
			panic("verif: callback panics on purpose")
		case "schema":
			root.SetInteger("guard", 1)
		case "size":
			root.SetString("big", strings.Repeat("x", 2000+d.MaxSizeLimit))
		}
		return nil
	})
}

func (w *c08Worker) Run(idx int) runner.CaseResult {
	res := runner.CaseResult{Case: fmt.Sprintf("c08-%d", idx)}
	w.run(&res, w.seed, idx)
	return res
}

func (w *c08Worker) run(res *runner.CaseResult, seed int64, idx int) {
	rng := caseRng(seed^0xc08, idx)
	prof := c07Profile(rng)
	prof.NoDedup = false
	steps := 15 + rng.Intn(40)
	if w.tier == "thorough" {
		steps = 15 + rng.Intn(120)
	}
	// subject pair (sees failures) and twin pair (never does); peers use identically seeded PRNGs
	A, B := newLocalPair(), newLocalPair()
	prA, prB := rand.New(rand.NewSource(seed*77+int64(idx))), rand.New(rand.NewSource(seed*77+int64(idx)))
	var prog []string
	trace := os.Getenv("VERIF_TRACE") != ""
	note := func(s string) {
		if len(prog) < 300 {
			prog = append(prog, s)
		}
		if trace {
			fmt.Printf("STEP %s\n  subj %s\n  twin %s\n", s, dumpTexts(A.S), dumpTexts(B.S))
		}
	}
	replay := map[string]any{"seed": seed, "idx": idx}
	viol := func(kind, detail string) {
		replay["program"] = prog
		res.Violate(kind, detail, "", replay)
	}
	init := append(gen.InitEdits(), gen.Edit{Op: "obj.set", K: "guard", V: &gen.Val{T: "str", S: "ok"}})
	for _, lp := range []*localPair{A, B} {
		lp.S.SetStatus(document.StatusAttached)
		lp.P.SetStatus(document.StatusAttached)
		if err := safeUpdate(lp.S, init); err != nil {
			viol("edit-failed", "init: "+err.Error())
			return
		}
		_ = lp.deliver(lp.S, lp.P)
	}
	cloneRoot := func(where string) bool {
		if bad := textIndexProblem(A.S); bad != "" {
			viol("structure-corrupt", where+": "+bad)
			return false
		}
		res.AddStat("clone_root_comparisons", 1)
		if r, m := A.S.Root().Marshal(), A.S.Marshal(); r != m {
			viol("clone-differs-from-root", fmt.Sprintf("%s: Root() shows %s but the document is %s", where, r, m))
			return false
		}
		return true
	}
	var vet Vetoed
	other := 0
	for s := 0; s < steps; s++ {
		x := rng.Intn(100)
		switch {
		case x < 12:
			kA, errA := A.scar(prA, prof)
			_, errB := B.scar(prB, prof)
			note("SCAR " + kA)
			res.AddSet("remote_steps", kA)
			if errA != nil || errB != nil {
				res.AddStat("scar_exchange_failed_not_judged", 1)
				return
			}
			other++
			if !cloneRoot("after remote step " + kA) {
				return
			}
			if A.S.Marshal() != B.S.Marshal() {
				res.AddStat("twin_diverged_without_failure_not_judged", 1)
				return
			}
		case x < 22:
			op := "undo"
			if rng.Intn(3) == 0 {
				op = "redo"
			}
			var eA, eB error
			if op == "undo" {
				eA, eB = safeUndo(A.S, true), safeUndo(B.S, true)
			} else {
				eA, eB = safeUndo(A.S, false), safeUndo(B.S, false)
			}
			note(strings.ToUpper(op))
			if eA != nil || eB != nil {
				res.AddStat("undo_redo_errors_not_judged_here", 1) // C14 owns this
				return
			}
			other++
			if !cloneRoot("after " + op) {
				return
			}
			if A.S.Marshal() != B.S.Marshal() {
				// undo/redo itself behaved differently on two identical documents (C14's business)
				res.AddStat("twin_diverged_without_failure_not_judged", 1)
				return
			}
		default:
			conts := gen.Scan(A.S.Root().Object, prof.MaxDepth)
			n := 1 + rng.Intn(3)
			var es []gen.Edit
			used := map[string]bool{}
			guard := makeGuardDoc(Guards{ArrSetMoved: true}, &vet)
			for k := 0; k < n; k++ {
				e := prof.Next(rng, conts, "s")
				top := e.K
				if len(e.Path) > 0 {
					top = e.Path[0]
				}
				if used[top] || top == "guard" || top == "big" || !guard(A.S, &e) {
					continue
				}
				used[top] = true
				es = append(es, e)
			}
			if len(es) == 0 {
				continue
			}
			var pres map[string]string
			if rng.Intn(4) == 0 {
				pres = map[string]string{"cur": fmt.Sprint(rng.Intn(100))}
			}
			// failing variants first (only on the subject)
			injected := false
			if rng.Intn(100) < 35 {
				injected = true
				for j := 0; j <= len(es); j++ {
					for _, how := range []string{"error", "panic", "schema", "size"} {
						before := snapState(A.S)
						err := failingUpdate(A.S, es, j, how, pres)
						if trace {
							fmt.Printf("FAIL %s j=%d %v -> %v\n  subj %s\n", how, j, describe(es), err, dumpTexts(A.S))
						}
						res.AddStat("failing_callbacks", 1)
						res.AddSet("failure_kinds", how)
						if err == nil {
							viol("failing-update-accepted", fmt.Sprintf("Update whose callback %s after %d of %v returned nil", how, j, describe(es)))
							return
						}
						if errors.Is(err, gen.ErrUnresolvable) {
							continue
						}
						after := snapState(A.S)
						if d := before.diff(after); d != "" {
							viol("failed-update-left-traces", fmt.Sprintf("Update failed (%s after %d of %v; error %v) but: %s", how, j, describe(es), err, d))
							return
						}
					}
				}
			}
			eA := updateWithPresence(A.S, es, pres)
			eB := updateWithPresence(B.S, es, pres)
			note(strings.Join(describe(es), " + "))
			if eA != nil || eB != nil {
				if errors.Is(eA, gen.ErrUnresolvable) && errors.Is(eB, gen.ErrUnresolvable) {
					continue
				}
				viol("valid-update-failed", fmt.Sprintf("%v: subject err=%v, twin err=%v\ntexts of the subject (document / working copy): %s", describe(es), eA, eB, dumpTexts(A.S)))
				return
			}
			sa, sb := snapState(A.S), snapState(B.S)
			if !injected && (sa.marshal != sb.marshal || sa.lastChange != sb.lastChange) {
				res.AddStat("twin_diverged_without_failure_not_judged", 1)
				return
			}
			if sa.marshal != sb.marshal || sa.lastChange != sb.lastChange || sa.undoLen != sb.undoLen || sa.pres != sb.pres {
				viol("update-after-failure-differs-from-twin", fmt.Sprintf("after %v:\n subject: %s | %s | undo=%d | pres=%s\n twin   : %s | %s | undo=%d | pres=%s",
					describe(es), sa.marshal, sa.lastChange, sa.undoLen, sa.pres, sb.marshal, sb.lastChange, sb.undoLen, sb.pres))
				return
			}
			if !cloneRoot("after update") {
				return
			}
		}
	}
	res.AddStat("guard_vetoes_arr_set_moved", vet.ArrSetMoved)
	res.Hash = runner.HashOf(prog)
	res.Nontrivial = res.Stats["failing_callbacks"] >= 3 && other >= 1
	if idx%499 == 0 {
		n := len(prog)
		if n > 25 {
			n = 25
		}
		b, _ := json.Marshal(map[string]any{"first_steps": prog[:n], "failing_callbacks": res.Stats["failing_callbacks"], "final": trunc400(A.S.Marshal())})
		res.Sample = b
	}
}

func dumpTexts(d *document.Document) string {
	var sb strings.Builder
	for k, el := range d.RootObject().Members() {
		if t, ok := el.(*crdt.Text); ok {
			fmt.Fprintf(&sb, "root.%s=%s ", k, t.ToTestString())
		}
	}
	for k, el := range d.Root().Object.Members() {
		if t, ok := el.(*crdt.Text); ok {
			fmt.Fprintf(&sb, "clone.%s=%s ", k, t.ToTestString())
			if os.Getenv("VERIF_STACK") != "" {
				for _, n := range t.Nodes() {
					fmt.Fprintf(&sb, "<%s insPrev=%v> ", n.ID().ToTestString(), func() string {
						if id := n.InsPrevID(); id != nil {
							return id.ToTestString()
						}
						return "nil"
					}())
				}
			}
		}
	}
	return sb.String()
}

func updateWithPresence(d *document.Document, es []gen.Edit, pres map[string]string) (err error) {
	defer func() {
		if x := recover(); x != nil {
			err = fmt.Errorf("PANIC: %v", x)
			if os.Getenv("VERIF_STACK") != "" {
				err = fmt.Errorf("PANIC: %v\n%s", x, debug.Stack())
			}
		}
	}()
	return d.Update(func(root *yjson.Object, p *presence.Presence) error {
		for k, v := range pres {
			p.Set(k, v)
		}
		for i := range es {
			if err := gen.Apply(root, p, &es[i]); err != nil {
				return err
			}
		}
		return nil
	})
}

func safeUndo(d *document.Document, undo bool) (err error) {
	defer func() {
		if x := recover(); x != nil {
			err = fmt.Errorf("PANIC: %v", x)
		}
	}()
	if undo {
		return d.Undo()
	}
	return d.Redo()
}

func (w *c08Worker) Replay(data json.RawMessage) runner.CaseResult {
	res := runner.CaseResult{Case: "replay"}
	var rp struct {
		Seed int64 `json:"seed"`
		Idx  int   `json:"idx"`
	}
	_ = json.Unmarshal(data, &rp)
	w.run(&res, rp.Seed, rp.Idx)
	return res
}

// textChainProblem checks the insertion chain of a Text: the pieces of one insertion that
// still exist are linked, through insPrev, in offset order and without skipping one. A
// position on a piece boundary is resolved through that link (findFloorNodePreferToLeft),
// so a piece whose insPrev names anything but its nearest surviving left sibling makes every
// edit at that boundary fail with "offset should be less than or equal to length".
func textChainProblem(t *crdt.Text) string {
	type piece struct {
		off, n int
		id     string
		prev   string
	}
	by := map[string][]piece{}
	var order []string
	for _, n := range t.Nodes() {
		k := n.ID().CreatedAt().Key()
		if _, ok := by[k]; !ok {
			order = append(order, k)
		}
		prev := ""
		if id := n.InsPrevID(); id != nil {
			prev = id.ToTestString()
		}
		by[k] = append(by[k], piece{off: n.ID().Offset(), id: n.ID().ToTestString(), prev: prev})
	}
	for _, k := range order {
		ps := by[k]
		// Text.DeepCopy (what builds the working copy of Document.Update) links a piece to
		// its insPrev by looking it up among the pieces already copied: the pieces of one
		// insertion have to stand in the chain in offset order
		if !sort.SliceIsSorted(ps, func(i, j int) bool { return ps[i].off < ps[j].off }) {
			return fmt.Sprintf("pieces of insertion %s stand out of offset order in the text: %s", k, t.ToTestString())
		}
		sort.Slice(ps, func(i, j int) bool { return ps[i].off < ps[j].off })
		for i, p := range ps {
			want := ""
			if i > 0 {
				want = ps[i-1].id
			}
			if p.prev != want {
				return fmt.Sprintf("insertion chain broken: piece %s has insPrev=%q, its nearest surviving left sibling is %q; text %s",
					p.id, p.prev, want, t.ToTestString())
			}
		}
	}
	return ""
}

// treeChainProblem is textChainProblem for the text pieces of a Tree: the pieces of one
// insertion that still exist are linked, through InsPrevID, in offset order. ToTreeNodes
// resolves a position on a piece boundary through that link; when it names anything but the
// nearest surviving left sibling, every edit at that boundary fails with "split offset out
// of range". Ids are resolved the way the tree does it (floor among the same insertion).
func treeChainProblem(t *crdt.Tree) string {
	by := map[string][]*crdt.TreeNode{}
	var order []string
	for _, n := range t.Nodes() {
		if !n.IsText() {
			continue
		}
		k := n.ID().CreatedAt.Key()
		if _, ok := by[k]; !ok {
			order = append(order, k)
		}
		by[k] = append(by[k], n)
	}
	for _, k := range order {
		ps := by[k]
		sort.SliceStable(ps, func(i, j int) bool { return ps[i].ID().Offset < ps[j].ID().Offset })
		for i, p := range ps {
			var want, got *crdt.TreeNode
			if i > 0 {
				want = ps[i-1]
			}
			if id := p.InsPrevID; id != nil && id.CreatedAt.Key() == k {
				for _, q := range ps {
					if q.ID().Offset <= id.Offset {
						got = q
					}
				}
			}
			if got != want {
				name := func(n *crdt.TreeNode) string {
					if n == nil {
						return "none"
					}
					return fmt.Sprintf("%s:%d %q", n.ID().CreatedAt.Key(), n.ID().Offset, n.Value)
				}
				return fmt.Sprintf("tree insertion chain broken: text piece %s has InsPrevID resolving to %s, its nearest surviving left sibling is %s; tree %s",
					name(p), name(got), name(want), t.ToXML())
			}
		}
	}
	return ""
}

// registryProblem checks the root's registries of the authoritative document against its
// structure: every element reachable from the root object is registered under its identity
// (an operation addressed to it finds it), and a collection with an EMPTY version vector -
// which purges nothing - runs through: Root.GarbageCollect dereferences RemovedAt() of every
// registered pair, so it dies exactly when a LIVE element is registered as garbage.
func registryProblem(d *document.Document) (bad string) {
	defer func() {
		if x := recover(); x != nil {
			bad = fmt.Sprintf("a collection that purges nothing panicked (a live element is registered as garbage): %v", x)
		}
	}()
	root := d.InternalDocument().Root()
	var walk func(e crdt.Element, path string)
	walk = func(e crdt.Element, path string) {
		if bad != "" {
			return
		}
		if root.FindByCreatedAt(e.CreatedAt()) == nil {
			bad = fmt.Sprintf("element %s (%s, createdAt %s) is in the document but not registered at the root", path, kindOfElem(e), e.CreatedAt().Key())
			return
		}
		switch v := e.(type) {
		case *crdt.Object:
			for k, m := range v.Members() {
				walk(m, path+"."+k)
			}
		case *crdt.Array:
			for i, m := range v.Elements() {
				walk(m, fmt.Sprintf("%s[%d]", path, i))
			}
		}
	}
	walk(d.RootObject(), "$")
	if bad != "" {
		return bad
	}
	if n, err := root.GarbageCollect(time.NewVersionVector()); err != nil {
		return "a collection that purges nothing failed: " + err.Error()
	} else if n != 0 {
		return fmt.Sprintf("a collection with an empty version vector purged %d nodes", n)
	}
	return ""
}

// textIndexProblem checks every Text of the document (document and working copy): the
// index structures must agree with the node chain.
func textIndexProblem(d *document.Document) string {
	bad := ""
	var walk func(e crdt.Element, which string)
	walk = func(e crdt.Element, which string) {
		switch v := e.(type) {
		case *crdt.Object:
			for _, m := range v.Members() {
				walk(m, which)
			}
		case *crdt.Array:
			for _, m := range v.Elements() {
				walk(m, which)
			}
		case *crdt.Text:
			func() {
				defer func() {
					if x := recover(); x != nil {
						bad = fmt.Sprintf("%s: CheckWeight panicked: %v", which, x)
					}
				}()
				if !v.CheckWeight() {
					bad = which + ": the splay tree's weights disagree with the node chain " + v.ToTestString()
				} else if p := textChainProblem(v); p != "" {
					bad = which + ": " + p
				}
			}()
		case *crdt.Tree:
			if p := treeChainProblem(v); p != "" {
				bad = which + ": " + p
			}
		}
	}
	walk(d.RootObject(), "document")
	if bad == "" {
		walk(d.Root().Object, "working copy")
	}
	if bad == "" {
		bad = registryProblem(d)
	}
	return bad
}
