package props

import (
	"encoding/json"
	"fmt"

	"verif/internal/boot"
	"verif/internal/gen"
	"verif/internal/replica"
	"verif/internal/runner"
	"verif/internal/sim"
)

type c01 struct{}

func init() { register(c01{}) }

func (c01) ID() string    { return "C01" }
func (c01) Level() string { return "exploration" }
func (c01) Rule() string {
	return "case = PRNG(seed,idx)-generated history over 2..5 replicas of one document on a real memdb server " +
		"(snapshots off, GC off): edits from the public json API chosen against the replica's visible state, interleaved " +
		"with sync / push-only sync / split sync (edit while a request is in flight) / offline stretches / late attach / " +
		"detach+re-attach, ending in a quiescent round. Non-trivial = at least 2 replicas made an applied edit, at least 4 " +
		"applied edits, and at least one quiescent comparison over >=2 attached replicas. Distinct = hash of the concrete step list."
}
func (c01) Assumptions() []string {
	return []string{
		"memdb backend (MongoDB client not executable offline)",
		"replica driver re-implements client.Client attach/sync/detach; checked against the real client by the fidelity cases",
		"tree edits restricted to the structure-preserving domain (C19 owns boundary-crossing edits)",
		"text indices are placed on code-point boundaries",
	}
}
func (c01) NumCases(tier string, _ int64) int {
	if tier == "thorough" {
		return 120000
	}
	return 5000
}
func (c01) Exhaustive(string) bool { return false }
func (c01) Floors(tier string) []runner.Floor {
	return []runner.Floor{{Stat: "quiescent_comparisons", Min: 100}, {Stat: "edits_applied", Min: 1000}}
}

type c01Worker struct{ *simWorker }

func (c01) NewWorker(tier string, seed int64) (runner.Worker, error) {
	sw, err := newSimWorker(tier, seed, boot.Options{SnapshotDisableGC: true})
	if err != nil {
		return nil, err
	}
	return &c01Worker{sw}, nil
}

func c01GenCfg(tier string, seed int64, idx int) sim.GenCfg {
	rng := caseRng(seed^0x5151, idx)
	g := sim.GenCfg{
		N:            2 + rng.Intn(3),
		MaxReps:      5,
		Steps:        10 + rng.Intn(31),
		Profile:      gen.DefaultProfile(),
		SplitSyncPct: 15,
		PushOnlyPct:  10,
		DetachPct:    2,
		QuiescePct:   3,
		MultiEditPct: 15,
		Offline:      rng.Intn(3) == 0,
	}
	if tier == "thorough" {
		g.Steps = 10 + rng.Intn(71)
	}
	// bias some cases to a single container family
	switch rng.Intn(8) {
	case 0:
		g.Profile = gen.Profile{Arr: 1, DeleteBias: 30, MaxDepth: 2, NewContainers: 5}
	case 1:
		g.Profile = gen.Profile{Txt: 1, DeleteBias: 30, MaxDepth: 1, Unicode: true, MaxText: 16}
	case 2:
		g.Profile = gen.Profile{Tree: 1, DeleteBias: 30, MaxDepth: 1, TreeMixed: idx%2 == 1}
	case 3:
		g.Profile = gen.Profile{Obj: 3, Cnt: 1, DeleteBias: 25, MaxDepth: 3, NewContainers: 30}
	}
	return g
}

func (w *c01Worker) runCase(res *runner.CaseResult, cfg sim.WorldCfg, gcfg sim.GenCfg, idx int, replay *sim.History) (sim.History, *sim.World) {
	proj, err := w.project(cfg.Snap)
	if err != nil {
		res.Inconclusive = "project: " + err.Error()
		return sim.History{}, nil
	}
	world := sim.NewWorld(w.env, proj, cfg, fmt.Sprintf("c01-%d", idx))
	world.OnQuiesce = func(wd *sim.World, att []*replica.Replica) {
		if len(att) >= 2 {
			res.AddStat("quiescent_comparisons", 1)
		}
		if ok, d := sim.CompareContent(att); !ok {
			wd.Fail = append(wd.Fail, sim.Failure{Kind: "divergence", Detail: "replicas differ after a quiescent round:\n" + d, Step: len(wd.Events)})
		}
	}
	var h sim.History
	if replay != nil {
		h = *replay
		world.RunHistory(h)
	} else {
		h = world.RunGenerated(caseRng(w.seed, idx), gcfg)
	}
	return h, world
}

func historyStats(res *runner.CaseResult, world *sim.World, h sim.History) (editors int, applied int) {
	ed := map[int]bool{}
	for i, st := range h.Steps {
		if i >= len(world.Events) {
			break
		}
		ev := world.Events[i]
		res.AddStat("steps", 1)
		if ev.Skipped {
			res.AddStat("steps_skipped", 1)
			continue
		}
		switch st.T {
		case "edit":
			if ev.Err == "" {
				applied++
				ed[st.R] = true
				for _, e := range st.E {
					res.AddSet("ops", e.Op)
				}
			}
		case "sync":
			res.AddStat("syncs", 1)
		case "syncBegin":
			res.AddStat("split_syncs", 1)
		case "attach":
			res.AddStat("attaches", 1)
		case "detach":
			res.AddStat("detaches", 1)
		}
	}
	res.AddStat("edits_applied", int64(applied))
	for k, v := range world.GuardVetoes {
		res.AddStat("guard_vetoes_"+k, v)
	}
	return len(ed), applied
}

func (w *c01Worker) Run(idx int) runner.CaseResult {
	res := runner.CaseResult{Case: fmt.Sprintf("c01-%d", idx)}
	cfg := sim.WorldCfg{Snap: 0, LocalGCOff: true, ServerGCOff: true}
	h, world := w.runCase(&res, cfg, c01GenCfg(w.tier, w.seed, idx), idx, nil)
	if world == nil {
		return res
	}
	res.Hash = runner.HashOf(h.Steps)
	editors, applied := historyStats(&res, world, h)
	res.Nontrivial = editors >= 2 && applied >= 4 && res.Stats["quiescent_comparisons"] >= 1
	failuresTo(&res, world, h, nil)
	if idx%97 == 0 || len(res.Viol) > 0 {
		res.Sample = sampleOf(h, map[string]any{"final": finalContent(world)})
	}
	return res
}

func finalContent(w *sim.World) string {
	att := w.Attached()
	if len(att) == 0 {
		return ""
	}
	s := att[0].Doc.Marshal()
	if len(s) > 400 {
		s = s[:400] + "…"
	}
	return s
}

func (w *c01Worker) Replay(data json.RawMessage) runner.CaseResult {
	res := runner.CaseResult{Case: "replay"}
	var h sim.History
	if err := json.Unmarshal(data, &h); err != nil {
		res.Inconclusive = err.Error()
		return res
	}
	_, world := w.runCase(&res, h.Cfg, sim.GenCfg{}, 0, &h)
	if world != nil {
		failuresTo(&res, world, h, nil)
	}
	return res
}
