package props

import (
	"encoding/json"
	"fmt"
	"math/rand"
	"strings"
	gotime "time"

	"github.com/yorkie-team/yorkie/pkg/document"
	"github.com/yorkie-team/yorkie/pkg/document/change"
	"github.com/yorkie-team/yorkie/pkg/document/crdt"
	yjson "github.com/yorkie-team/yorkie/pkg/document/json"
	"github.com/yorkie-team/yorkie/pkg/document/presence"
	"github.com/yorkie-team/yorkie/pkg/document/yson"
	"github.com/yorkie-team/yorkie/pkg/key"

	"verif/internal/gen"
	"verif/internal/runner"
	"verif/internal/sim"
)

type c18 struct{}

func init() { register(c18{}) }

func (c18) ID() string    { return "C18" }
func (c18) Level() string { return "exploration" }
func (c18) Rule() string {
	return "three case families. (reachable) a document is driven through a C01/C07-style history - a subject and a concurrent peer " +
		"exchanging changes through the wire codec, scar steps (concurrent edits, garbage collection, snapshot round trip), styles " +
		"and style removal on text and trees, non-BMP characters, nested containers, counters incl. dedup - and at sampled points the " +
		"round trip compaction and revisions use is performed on it: y = yson.FromCRDT(root); s = y.Marshal(); Unmarshal(s) must " +
		"marshal to s again; SetYSON of the parsed value into a NEW document must give FromCRDT(new).Marshal() == s; and, as a view " +
		"that does not go through the exporter, the canonical content of the new document (text as merged styled runs, trees as XML " +
		"with attributes, counters with type) must equal the original's - an exporter that resurrects removed attributes agrees " +
		"with itself but not with this view. Then the new document's changes cross the wire codec into a third document (what " +
		"every client attaching after a compaction receives), which must show the same canonical content. (literal) random YSON " +
		"values (nested objects/arrays, every primitive type incl. edge numbers, bytes, dates, counters, text runs with attributes " +
		"and surrogate pairs, trees with attributes) are marshalled, parsed, re-marshalled (equal text), set into a document and " +
		"exported again (equal text). (revision, every 10th case) on the live server a generated multi-client history is brought to quiescence, " +
		"CreateRevision is called (its snapshot, imported into an empty document, must show what every synced client shows), the clients " +
		"edit on, optionally a second revision is created, then RestoreRevision: after a quiescent round every attached client and a " +
		"client attaching afterwards must show exactly the content present at revision creation; edits continue on top, the second " +
		"revision is restored, the first one again; GetRevision at the end still returns the content at creation. " +
		"Non-trivial = >=3 element kinds present or >=1 styled text/tree."
}
func (c18) Assumptions() []string {
	return []string{"in-process; packs.Compact's own rebuild-compare on the real server is exercised by C10 on every compaction",
		"dedup counters that already counted are compared up to the new document only: what its Set operations carry is recorded finding F-DEDUP-HLL-OPS"}
}
func (c18) NumCases(tier string, _ int64) int {
	if tier == "thorough" {
		return 400000
	}
	return 15000
}
func (c18) Exhaustive(string) bool { return false }
func (c18) Floors(string) []runner.Floor {
	return []runner.Floor{{Stat: "round_trips", Min: 8000}, {Stat: "third_document_comparisons", Min: 5000}, {Stat: "literal_values", Min: 1000},
		{Stat: "revisions_restored", Min: 300}, {Stat: "restores_compared_on_fresh_attach", Min: 300}}
}

type c18Worker struct {
	tier string
	seed int64
	sw   *simWorker // live server, booted on the first revision case
}

func (c18) NewWorker(tier string, seed int64) (runner.Worker, error) {
	return &c18Worker{tier: tier, seed: seed}, nil
}
func (w *c18Worker) Close() {
	if w.sw != nil {
		w.sw.Close()
	}
}

func safeYSON(f func() error) (err error) {
	defer func() {
		if x := recover(); x != nil {
			err = fmt.Errorf("PANIC: %v", x)
		}
	}()
	return f()
}

// hasCountedDedup: a dedup counter with a non-zero value somewhere in the document.
func hasCountedDedup(e crdt.Element) bool {
	switch v := e.(type) {
	case *crdt.Counter:
		return v.IsDedup() && v.Marshal() != "0"
	case *crdt.Object:
		for _, m := range v.Members() {
			if hasCountedDedup(m) {
				return true
			}
		}
	case *crdt.Array:
		for _, m := range v.Elements() {
			if hasCountedDedup(m) {
				return true
			}
		}
	}
	return false
}

// roundTrip performs the compaction/revision round trip on d; returns a problem description.
func c18RoundTrip(res *runner.CaseResult, d *document.Document, unfenced ...bool) (kind, detail string) {
	var s string
	var parsed yson.Object
	if err := safeYSON(func() error {
		y, err := yson.FromCRDT(d.RootObject())
		if err != nil {
			return fmt.Errorf("FromCRDT: %w", err)
		}
		s, err = y.(yson.Object).Marshal()
		if err != nil {
			return fmt.Errorf("Marshal: %w", err)
		}
		if err := yson.Unmarshal(s, &parsed); err != nil {
			return fmt.Errorf("Unmarshal: %w", err)
		}
		return nil
	}); err != nil {
		return "export-or-parse-failed", fmt.Sprintf("%v\nYSON so far: %s\ndocument: %s", err, trunc400(s), trunc400(d.Marshal()))
	}
	s2, err := parsed.Marshal()
	if err != nil || s2 != s {
		return "yson-text-not-stable", fmt.Sprintf("Marshal(Unmarshal(s)) differs (err=%v):\n s  = %s\n s' = %s", err, trunc400(s), trunc400(s2))
	}
	res.AddStat("round_trips", 1)
	nd := document.New(key.Key("c18-new"))
	nd.SetActor(actorB)
	if err := safeYSON(func() error {
		return nd.Update(func(r *yjson.Object, _ *presence.Presence) error {
			r.SetYSON(parsed)
			return nil
		})
	}); err != nil {
		return "set-yson-failed", fmt.Sprintf("SetYSON of the exported value failed: %v\nYSON: %s", err, trunc400(s))
	}
	var s3 string
	if err := safeYSON(func() error {
		y, err := yson.FromCRDT(nd.RootObject())
		if err != nil {
			return err
		}
		s3, err = y.(yson.Object).Marshal()
		return err
	}); err != nil {
		return "export-of-rebuilt-failed", err.Error()
	}
	if s3 != s {
		return "rebuilt-yson-differs", fmt.Sprintf("FromCRDT(new) != FromCRDT(d) (packs.Compact would report 'content mismatch after rebuild'):\n d   = %s\n new = %s", trunc400(s), trunc400(s3))
	}
	if a, b := canonDoc(d), canonDoc(nd); a != b {
		return "rebuilt-content-differs", fmt.Sprintf("the rebuilt document does not show what the original shows (the YSON texts agree with each other):\n original: %s\n rebuilt:  %s\n YSON: %s", trunc400(a), trunc400(b), trunc400(s))
	}
	if a, b := nd.Root().Marshal(), nd.Marshal(); a != b {
		return "rebuilt-clone-differs-from-root", fmt.Sprintf("Root() %s vs %s", trunc400(a), trunc400(b))
	}
	// what a client attaching after the compaction receives
	if hasCountedDedup(d.RootObject()) && len(unfenced) == 0 {
		res.AddStat("fenced_F-DEDUP-HLL-OPS", 1)
		return "", ""
	}
	pack := nd.CreateChangePack()
	cs, _, err := viaWire(pack.Changes, nd.Key())
	if err != nil {
		return "rebuilt-changes-not-encodable", err.Error()
	}
	third := document.New(key.Key("c18-new"))
	third.SetActor(actorA)
	third.SetStatus(document.StatusAttached)
	if err := safeYSON(func() error {
		return third.ApplyChangePack(change.NewPack(third.Key(), change.InitialCheckpoint.NextServerSeq(int64(len(cs))), cs, nil, nil))
	}); err != nil {
		return "rebuilt-changes-not-applicable", fmt.Sprintf("a client cannot apply the rebuilt document's changes: %v", err)
	}
	res.AddStat("third_document_comparisons", 1)
	if a, b := canonDoc(d), canonDoc(third); a != b {
		return "attacher-content-differs", fmt.Sprintf("a client fed by the rebuilt document's changes shows\n %s\nthe original shows\n %s", trunc400(b), trunc400(a))
	}
	return "", ""
}

func (w *c18Worker) runReachable(res *runner.CaseResult, idx int) {
	rng := caseRng(w.seed^0xc18, idx)
	prof := c07Profile(rng)
	prof.NoDedup = rng.Intn(3) != 0
	if rng.Intn(2) == 0 {
		prof.Unicode = true
	}
	lp := newLocalPair()
	var prog []string
	replay := map[string]any{"family": "reachable", "seed": w.seed, "idx": idx}
	init := gen.InitEdits()
	if err := safeUpdate(lp.S, init); err != nil {
		return
	}
	_ = lp.deliver(lp.S, lp.P)
	steps := 10 + rng.Intn(50)
	if w.tier == "thorough" {
		steps = 10 + rng.Intn(120)
	}
	check := func(where string) bool {
		if k, d := c18RoundTrip(res, lp.S); k != "" {
			replay["program"] = prog
			res.Violate(k, fmt.Sprintf("%s: %s\nprogram: %s", where, d, strings.Join(prog, "; ")), "", replay)
			return false
		}
		return true
	}
	for s := 0; s < steps; s++ {
		x := rng.Intn(100)
		switch {
		case x < 10:
			kind, err := lp.scar(rng, prof)
			prog = append(prog, "SCAR "+kind)
			res.AddSet("scar_kinds", kind)
			if err != nil {
				res.AddStat("scar_exchange_failed_not_judged", 1)
				return
			}
		case x < 22:
			if !check(fmt.Sprintf("after step %d", s)) {
				return
			}
		case x < 27:
			// values and member names real documents hold: punctuation, the words the
			// exporter itself uses, editor-style {"type":"paragraph"} objects
			var e gen.Edit
			str := c18Strings[rng.Intn(len(c18Strings))]
			switch rng.Intn(3) {
			case 0:
				e = gen.Edit{Op: "obj.set", K: []string{"a", "type", "value"}[rng.Intn(3)], V: &gen.Val{T: "str", S: str}}
			case 1:
				e = gen.Edit{Op: "obj.set", Path: []string{"obj"}, K: "type", V: &gen.Val{T: "str", S: "paragraph"}}
			default:
				e = gen.Edit{Op: "txt.edit", Path: []string{"txt"}, I: 0, J: 0, S: str}
			}
			if err := safeUpdate(lp.S, []gen.Edit{e}); err == nil {
				prog = append(prog, e.String())
				res.AddStat("hazard_values_set", 1)
			}
		default:
			conts := gen.Scan(lp.S.Root().Object, prof.MaxDepth)
			e := prof.Next(rng, conts, "subject")
			if e.Op == "arr.set" {
				continue
			}
			if err := safeUpdate(lp.S, []gen.Edit{e}); err != nil {
				continue
			}
			res.AddSet("ops", e.Op)
			prog = append(prog, e.String())
		}
	}
	if !check("at the end") {
		return
	}
	res.Hash = runner.HashOf(prog)
	res.Nontrivial = len(prog) >= 5
	if idx%499 == 0 {
		n := len(prog)
		if n > 25 {
			n = 25
		}
		b, _ := json.Marshal(map[string]any{"family": "reachable", "first_steps": prog[:n], "final": trunc400(canonDoc(lp.S))})
		res.Sample = b
	}
}

// ---- literal family ----

var c18Strings = []string{"", "a", "hi there", "😀", "a😀b", "𝄞x", "한글", "quote\"s", "back\\slash", "new\nline", "tab\t", "{}", "[1,2]", "Int(1)", "null", "</p>", "é", " ", "  spaces  "}

func c18Attrs(rng *rand.Rand) map[string]string {
	if rng.Intn(3) != 0 {
		return nil
	}
	m := map[string]string{}
	for i := 0; i < 1+rng.Intn(3); i++ {
		m[[]string{"b", "i", "color", "k-1", "한"}[rng.Intn(5)]] = c18Strings[rng.Intn(len(c18Strings))]
	}
	return m
}

func c18TreeNode(rng *rand.Rand, depth int) yson.TreeNode {
	n := yson.TreeNode{Type: []string{"p", "h1", "li", "div"}[rng.Intn(4)], Attributes: c18Attrs(rng)}
	k := rng.Intn(4)
	lastText := false
	for i := 0; i < k; i++ {
		if depth < 2 && rng.Intn(3) == 0 {
			n.Children = append(n.Children, c18TreeNode(rng, depth+1))
			lastText = false
		} else if !lastText {
			v := c18Strings[1+rng.Intn(len(c18Strings)-1)]
			n.Children = append(n.Children, yson.TreeNode{Type: "text", Value: v})
			lastText = true
		}
	}
	return n
}

func c18Value(rng *rand.Rand, depth int) interface{} {
	x := rng.Intn(16)
	if depth >= 3 && x >= 10 {
		x = rng.Intn(10)
	}
	switch x {
	case 0:
		return nil
	case 1:
		return rng.Intn(2) == 0
	case 2:
		return []int32{0, 1, -1, 2147483647, -2147483648, 42}[rng.Intn(6)]
	case 3:
		return []int64{0, 1, -1, 9223372036854775807, -9223372036854775808, 1 << 53}[rng.Intn(6)]
	case 4:
		return []float64{0, 1.5, -2.25, 1e21, 1e-7, 123456789.125, 3}[rng.Intn(7)]
	case 5:
		return c18Strings[rng.Intn(len(c18Strings))]
	case 6:
		return [][]byte{{}, {0}, {1, 2, 3}, {255, 254}, []byte("bytes")}[rng.Intn(5)]
	case 7:
		return gotime.Unix(int64(rng.Intn(2000000000)), 0).UTC()
	case 8:
		return yson.Counter{Type: crdt.IntegerCnt, Value: []int32{0, 5, -7, 2147483647}[rng.Intn(4)]}
	case 9:
		return yson.Counter{Type: crdt.LongCnt, Value: []int64{0, 5, -7, 9223372036854775807}[rng.Intn(4)]}
	case 10, 11:
		o := yson.Object{}
		for i := 0; i < rng.Intn(4); i++ {
			o[[]string{"a", "b", "key with space", "한", "q\"uote", "$", "type", "value", "k)"}[rng.Intn(9)]] = c18Value(rng, depth+1)
		}
		return o
	case 12, 13:
		a := yson.Array{}
		for i := 0; i < rng.Intn(4); i++ {
			a = append(a, c18Value(rng, depth+1))
		}
		return a
	case 14:
		t := yson.Text{}
		for i := 0; i < rng.Intn(4); i++ {
			t.Nodes = append(t.Nodes, yson.TextNode{Value: c18Strings[1+rng.Intn(len(c18Strings)-1)], Attributes: c18Attrs(rng)})
		}
		return t
	default:
		root := c18TreeNode(rng, 0)
		root.Type = "doc"
		// a tree's root never carries attributes: json.SetNewTree (buildRoot) ignores them
		// for every caller, so no document can hold any
		root.Attributes = nil
		return yson.Tree{Root: root}
	}
}

func (w *c18Worker) runLiteral(res *runner.CaseResult, idx int) {
	rng := caseRng(w.seed^0xc18f, idx)
	o := yson.Object{}
	for i := 0; i < 1+rng.Intn(5); i++ {
		o[fmt.Sprintf("k%d", i)] = c18Value(rng, 0)
	}
	res.AddStat("literal_values", 1)
	replay := map[string]any{"family": "literal", "seed": w.seed, "idx": idx}
	var s string
	if err := safeYSON(func() error {
		var err error
		s, err = o.Marshal()
		return err
	}); err != nil {
		res.Violate("literal-marshal-failed", err.Error(), "", replay)
		return
	}
	var parsed yson.Object
	if err := safeYSON(func() error { return yson.Unmarshal(s, &parsed) }); err != nil {
		res.Violate("literal-not-parseable", fmt.Sprintf("the text Marshal produced does not parse: %v\n%s", err, trunc400(s)), "", replay)
		return
	}
	if s2, err := parsed.Marshal(); err != nil || s2 != s {
		res.Violate("literal-text-not-stable", fmt.Sprintf("Marshal(Unmarshal(s)) differs (err=%v):\n s  = %s\n s' = %s", err, trunc400(s), trunc400(s2)), "", replay)
		return
	}
	d := document.New(key.Key("c18-lit"))
	d.SetActor(actorA)
	if err := safeYSON(func() error {
		return d.Update(func(r *yjson.Object, _ *presence.Presence) error {
			r.SetYSON(parsed)
			return nil
		})
	}); err != nil {
		res.Violate("literal-set-yson-failed", fmt.Sprintf("%v\n%s", err, trunc400(s)), "", replay)
		return
	}
	var s3 string
	if err := safeYSON(func() error {
		y, err := yson.FromCRDT(d.RootObject())
		if err != nil {
			return err
		}
		s3, err = y.(yson.Object).Marshal()
		return err
	}); err != nil {
		res.Violate("literal-export-failed", err.Error(), "", replay)
		return
	}
	if s3 != s {
		res.Violate("literal-document-differs", fmt.Sprintf("a document built from the literal exports a different value:\n literal  = %s\n document = %s", trunc400(s), trunc400(s3)), "", replay)
		return
	}
	// and the document built from it survives the full round trip as well
	if k, det := c18RoundTrip(res, d); k != "" {
		res.Violate(k, "document built from a literal: "+det, "", replay)
		return
	}
	res.Hash = runner.HashOf(s)
	res.Nontrivial = len(s) > 20
	if idx%499 == 1 {
		b, _ := json.Marshal(map[string]any{"family": "literal", "yson": trunc400(s)})
		res.Sample = b
	}
}

func (w *c18Worker) Run(idx int) runner.CaseResult {
	res := runner.CaseResult{Case: fmt.Sprintf("c18-%d", idx)}
	if idx%10 == 9 {
		w.runRevision(&res, idx, nil)
	} else if idx%3 == 2 {
		w.runLiteral(&res, idx)
	} else {
		w.runReachable(&res, idx)
	}
	return res
}

func (w *c18Worker) Replay(data json.RawMessage) runner.CaseResult {
	res := runner.CaseResult{Case: "replay"}
	var rp struct {
		Family string       `json:"family"`
		Seed   int64        `json:"seed"`
		Idx    int          `json:"idx"`
		H      *sim.History `json:"h"`
	}
	_ = json.Unmarshal(data, &rp)
	w2 := &c18Worker{tier: w.tier, seed: rp.Seed}
	if rp.Family == "revision" {
		if rp.H != nil && len(rp.H.Steps) == 0 {
			rp.H = nil
		}
		w2.runRevision(&res, rp.Idx, rp.H)
		w2.Close()
		return res
	}
	if rp.Family == "witness-dedup" {
		// pinned witness of F-DEDUP-HLL-OPS: a fixed document, the fence switched off
		d := document.New(key.Key("c18-w"))
		d.SetActor(actorA)
		_ = safeUpdate(d, []gen.Edit{{Op: "obj.set", K: "a", V: &gen.Val{T: "dedup"}}})
		_ = safeUpdate(d, []gen.Edit{{Op: "cnt.inc", Path: []string{"a"}, S: "u1"}})
		_ = safeUpdate(d, []gen.Edit{{Op: "cnt.inc", Path: []string{"a"}, S: "u2"}})
		if k, det := c18RoundTrip(&res, d, true); k != "" {
			res.Violate(k, det, "", rp)
		}
		return res
	}
	if rp.Family == "literal" {
		w2.runLiteral(&res, rp.Idx)
	} else {
		w2.runReachable(&res, rp.Idx)
	}
	return res
}
