package props

import (
	"context"
	"encoding/json"
	"fmt"
	"math/rand"
	"runtime"
	"sort"
	"strings"
	"sync"
	"sync/atomic"
	gotime "time"

	"github.com/anishathalye/porcupine"

	api "github.com/yorkie-team/yorkie/api/yorkie/v1"
	"github.com/yorkie-team/yorkie/pkg/document"
	"github.com/yorkie-team/yorkie/pkg/document/change"
	yjson "github.com/yorkie-team/yorkie/pkg/document/json"
	"github.com/yorkie-team/yorkie/pkg/document/presence"
	"github.com/yorkie-team/yorkie/pkg/document/time"
	"github.com/yorkie-team/yorkie/pkg/key"
	"github.com/yorkie-team/yorkie/server/backend/database"

	"verif/internal/boot"
	"verif/internal/faultdb"
	"verif/internal/gen"
	"verif/internal/replica"
	"verif/internal/runner"
	"verif/internal/sim"
)

type c04 struct{}

func init() { register(c04{}) }

func (c04) ID() string    { return "C04" }
func (c04) Level() string { return "exploration" }
func (c04) Rule() string {
	return "two case families, both on the real server built with -race. (par) 4..12 goroutine clients hammer ONE document with " +
		"Attach / PushPull (1-3 changes, empty pulls, push-only) / Detach+re-attach in true parallel, while a Backend.DB decorator " +
		"injects seeded yields (Gosched / <=2ms sleeps) around CreateChangeInfos, FindChangeInfosBetweenServerSeqs, " +
		"UpdateMinVersionVector and UpdateClientInfoAfterPushPull, and the lock hook yields at lock boundaries. (seq) random " +
		"sequential schedules (C01 generator, incl. split syncs, push-only, re-attach). Every RPC is recorded at the client boundary " +
		"{client, attachment, kind, request checkpoint, pushed clientSeqs, call tick, response checkpoint, ids of returned changes " +
		"or snapshot, return tick, error}; ticks come from one atomic counter. Offline oracle over the records + the stored log: " +
		"serverSeq is 1..N; per actor clientSeq runs 1..k per attachment in serverSeq order, once each; every pulling response " +
		"returns exactly log(reqCP.S, respCP.S] minus own rows, in order; push-only returns nothing and keeps S; checkpoints " +
		"monotone per attachment, C'==request C, S'<=head; real time: A returned before B called => S'(A)<=S'(B) and A's rows " +
		"precede B's rows. porcupine re-checks each parallel history against a sequential append-and-pull model. Non-trivial = " +
		">=2 clients pushed and (par) >=1 pair of overlapping requests observed. Every eighth sync of the parallel family is sent twice (a retransmission racing its original; an event of its own; the model's append is idempotent per change id)."
}
func (c04) Assumptions() []string {
	return []string{
		"memdb serialises write transactions, so removing the doc.push lock is not observable here; the MongoDB compare-and-set path cannot be executed",
		"a porcupine timeout is inconclusive, never a violation",
	}
}
func (c04) NumCases(tier string, _ int64) int {
	if tier == "thorough" {
		return 4000
	}
	return 120
}
func (c04) Exhaustive(string) bool { return false }
func (c04) Floors(string) []runner.Floor {
	return []runner.Floor{{Stat: "overlapping_request_pairs", Min: 500}, {Stat: "responses_checked_against_log", Min: 2000}, {Stat: "porcupine_ok", Min: 10}, {Stat: "racing_retransmissions", Min: 100}}
}

// ---- recording ----

type gotChange struct {
	Actor     string `json:"a"`
	ClientSeq uint32 `json:"c"`
	ServerSeq int64  `json:"s"`
}

type rpcEv struct {
	Client   string      `json:"client"`
	Actor    string      `json:"actor"`
	Attach   int         `json:"attach"`
	Kind     string      `json:"kind"`
	PushOnly bool        `json:"push_only,omitempty"`
	ReqS     int64       `json:"req_s"`
	ReqC     uint32      `json:"req_c"`
	Pushed   []uint32    `json:"pushed,omitempty"`
	Call     int64       `json:"call"`
	Ret      int64       `json:"ret"`
	RespS    int64       `json:"resp_s"`
	RespC    uint32      `json:"resp_c"`
	Got      []gotChange `json:"got,omitempty"`
	Snapshot bool        `json:"snapshot,omitempty"`
	Err      string      `json:"err,omitempty"`
	// Dup: a retransmission of the request of the same client that was called just before
	// it and is still in flight; its response is not applied by the client
	Dup bool `json:"dup,omitempty"`
}

type rpcRecorder struct {
	mu     sync.Mutex
	tick   atomic.Int64
	open   map[string]*rpcEv
	attach map[string]int
	evs    []rpcEv
}

func newRecorder() *rpcRecorder {
	return &rpcRecorder{open: map[string]*rpcEv{}, attach: map[string]int{}}
}

// openDup / closeDup record a retransmission as an event of its own.
func (r *rpcRecorder) openDup(rep *replica.Replica, pack *change.Pack) *rpcEv {
	ev := &rpcEv{Client: rep.Name + "~retransmission", Actor: rep.ID.String(), Kind: "pushpull", Dup: true,
		ReqS: pack.Checkpoint.ServerSeq, ReqC: pack.Checkpoint.ClientSeq}
	for _, c := range pack.Changes {
		ev.Pushed = append(ev.Pushed, c.ClientSeq())
	}
	r.mu.Lock()
	ev.Attach = r.attach[rep.Name]
	r.mu.Unlock()
	ev.Call = r.tick.Add(1)
	return ev
}

func (r *rpcRecorder) closeDup(ev *rpcEv, pb *api.ChangePack, err error) {
	ev.Ret = r.tick.Add(1)
	if err != nil {
		ev.Err = err.Error()
	} else if pb != nil {
		if pb.Checkpoint != nil {
			ev.RespS, ev.RespC = pb.Checkpoint.ServerSeq, pb.Checkpoint.ClientSeq
		}
		ev.Snapshot = len(pb.Snapshot) > 0
		for _, c := range pb.Changes {
			g := gotChange{}
			if c.Id != nil {
				g.ClientSeq = c.Id.ClientSeq
				g.ServerSeq = c.Id.ServerSeq
				if a, e := time.ActorIDFromBytes(c.Id.ActorId); e == nil {
					g.Actor = a.String()
				}
			}
			ev.Got = append(ev.Got, g)
		}
	}
	r.mu.Lock()
	r.evs = append(r.evs, *ev)
	r.mu.Unlock()
}

func (r *rpcRecorder) isOpen(name string) bool {
	r.mu.Lock()
	defer r.mu.Unlock()
	return r.open[name] != nil
}

func (r *rpcRecorder) OnRequest(rep *replica.Replica, kind string, pack *change.Pack) {
	ev := &rpcEv{Client: rep.Name, Actor: rep.ID.String(), Kind: kind, ReqS: pack.Checkpoint.ServerSeq, ReqC: pack.Checkpoint.ClientSeq}
	if kind == "pushpull" && rep.Pending != nil {
		ev.PushOnly = rep.Pending.PushOnly
	}
	for _, c := range pack.Changes {
		ev.Pushed = append(ev.Pushed, c.ClientSeq())
	}
	r.mu.Lock()
	if kind == "attach" {
		r.attach[rep.Name]++
	}
	ev.Attach = r.attach[rep.Name]
	// the call tick is taken BEFORE the event becomes visible as open: a racing
	// retransmission waits for isOpen() and takes its own call tick after that, so it is
	// always ordered behind its original (it inherits the original's change ids)
	ev.Call = r.tick.Add(1)
	r.open[rep.Name] = ev
	r.mu.Unlock()
}

func (r *rpcRecorder) OnResponse(rep *replica.Replica, kind string, req *change.Pack, pb *api.ChangePack, err error) {
	ret := r.tick.Add(1)
	r.mu.Lock()
	defer r.mu.Unlock()
	ev := r.open[rep.Name]
	if ev == nil {
		return
	}
	delete(r.open, rep.Name)
	ev.Ret = ret
	if err != nil {
		ev.Err = err.Error()
	} else if pb != nil {
		if pb.Checkpoint != nil {
			ev.RespS, ev.RespC = pb.Checkpoint.ServerSeq, pb.Checkpoint.ClientSeq
		}
		ev.Snapshot = len(pb.Snapshot) > 0
		for _, c := range pb.Changes {
			g := gotChange{}
			if c.Id != nil {
				g.ClientSeq = c.Id.ClientSeq
				g.ServerSeq = c.Id.ServerSeq
				if a, e := time.ActorIDFromBytes(c.Id.ActorId); e == nil {
					g.Actor = a.String()
				}
			}
			ev.Got = append(ev.Got, g)
		}
	}
	r.evs = append(r.evs, *ev)
}

func (r *rpcRecorder) OnApplied(*replica.Replica, string, *change.Pack) {}

// ---- offline oracle ----

// serverDetachedActors (C16 only): actors whose client was deactivated with documents
// attached; set by the single-threaded oracle phase of a case, read by checkLogAndResponses.
var serverDetachedActors = map[string]bool{}

type logRow struct {
	Actor     string
	ClientSeq uint32
	ServerSeq int64
	HasOps    bool
}

func toRows(log []*database.ChangeInfo) []logRow {
	out := make([]logRow, 0, len(log))
	for _, r := range log {
		out = append(out, logRow{Actor: r.ActorID.String(), ClientSeq: r.ClientSeq, ServerSeq: r.ServerSeq, HasOps: len(r.Operations) > 0})
	}
	return out
}

// checkLogAndResponses returns the list of violations (kind: detail).
func checkLogAndResponses(evs []rpcEv, rows []logRow, res *runner.CaseResult) []string {
	var bad []string
	add := func(f string, a ...any) {
		if len(bad) < 8 {
			bad = append(bad, fmt.Sprintf(f, a...))
		}
	}
	// 1. serverSeq exactly 1..N
	for i, r := range rows {
		if r.ServerSeq != int64(i+1) {
			add("log-gap: row %d has serverSeq %d", i+1, r.ServerSeq)
			break
		}
	}
	head := int64(len(rows))
	// 2. per actor the clientSeq sequence equals the concatenation of what each attachment pushed
	sort.SliceStable(evs, func(i, j int) bool { return evs[i].Call < evs[j].Call })
	type ak struct {
		actor  string
		attach int
	}
	pushedBy := map[string][][]uint32{} // actor -> per attachment (in order) -> clientSeqs acknowledged
	attIdx := map[ak]int{}
	for _, e := range evs {
		if e.Err != "" {
			add("request-failed: %s %s (attachment %d): %s", e.Client, e.Kind, e.Attach, e.Err)
			continue
		}
		if e.Dup {
			continue // carries nothing its original does not carry
		}
		k := ak{e.Actor, e.Attach}
		if _, ok := attIdx[k]; !ok {
			attIdx[k] = len(pushedBy[e.Actor])
			pushedBy[e.Actor] = append(pushedBy[e.Actor], nil)
		}
		cur := pushedBy[e.Actor][attIdx[k]]
		for _, cs := range e.Pushed {
			if len(cur) == 0 || cs > cur[len(cur)-1] {
				cur = append(cur, cs)
			}
		}
		pushedBy[e.Actor][attIdx[k]] = cur
	}
	byActor := map[string][]uint32{}
	for _, r := range rows {
		byActor[r.Actor] = append(byActor[r.Actor], r.ClientSeq)
	}
	for actor, atts := range pushedBy {
		var want []uint32
		for _, a := range atts {
			for i, cs := range a {
				if cs != uint32(i+1) {
					add("client-seq-not-contiguous: actor %s pushed %v in one attachment", actor, a)
					break
				}
			}
			want = append(want, a...)
		}
		got := byActor[actor]
		if serverDetachedActors[actor] && len(got) == len(want)+1 && fmt.Sprint(got[:len(want)]) == fmt.Sprint(want) {
			// the server detached this client's document itself (deactivation with documents
			// attached): ClusterService.DetachDocument pushes one presence-clear change in the
			// client's name
			got = got[:len(want)]
		}
		if fmt.Sprint(got) != fmt.Sprint(want) {
			add("log-differs-from-pushes: actor %s: log holds clientSeqs %v, acknowledged pushes were %v (per attachment, in order)", actor, got, want)
		}
	}
	for actor := range byActor {
		if _, ok := pushedBy[actor]; !ok {
			add("log-has-unknown-actor: %s", actor)
		}
	}
	// 3..6 per response
	last := map[ak]*rpcEv{}
	for i := range evs {
		e := &evs[i]
		if e.Err != "" {
			continue
		}
		k := ak{e.Actor, e.Attach}
		if e.RespS > head {
			add("checkpoint-beyond-head: %s %s got S'=%d, log head is %d", e.Client, e.Kind, e.RespS, head)
		}
		if e.RespC != e.ReqC {
			add("client-seq-ack-mismatch: %s %s sent clientSeq %d, response acknowledges %d", e.Client, e.Kind, e.ReqC, e.RespC)
		}
		if p := last[k]; p != nil && !e.Dup {
			if e.RespS < p.RespS || e.RespC < p.RespC {
				add("checkpoint-not-monotone: %s attachment %d: (%d,%d) after (%d,%d)", e.Client, e.Attach, e.RespS, e.RespC, p.RespS, p.RespC)
			}
			if e.ReqS != p.RespS {
				// the client library echoes the last response checkpoint; a mismatch is a harness/client issue, only noted
				res.AddStat("note_request_cp_differs_from_last_response", 1)
			}
		}
		if !e.Dup {
			last[k] = e
		}
		if e.PushOnly {
			if len(e.Got) > 0 || e.RespS != e.ReqS {
				add("push-only-pulled: %s push-only request returned %d changes, S %d -> %d", e.Client, len(e.Got), e.ReqS, e.RespS)
			}
			continue
		}
		if e.Snapshot {
			res.AddStat("snapshot_responses", 1)
			continue
		}
		if e.RespS < e.ReqS || e.RespS > head {
			continue
		}
		// A fresh Document attached by a client that had the document attached
		// before must get that client's earlier rows too; the server drops those
		// whose clientSeq is not above the attach pack's (in practice the old
		// attachment's initial presence). Rows pushed in THIS attachment must
		// never come back. So: own rows of earlier attachments are required when
		// they carry operations and optional otherwise.
		newPushes := int64(0)
		for _, cs := range e.Pushed {
			if cs > 0 {
				newPushes++
			}
		}
		oldLimit := int64(0) // own rows with serverSeq <= oldLimit belong to earlier attachments
		if e.Kind == "attach" {
			oldLimit = e.RespS - newPushes
		}
		var want []logRow
		optional := map[int64]bool{}
		for _, r := range rows[e.ReqS:e.RespS] {
			if r.Actor != e.Actor {
				want = append(want, r)
			} else if r.ServerSeq <= oldLimit {
				if r.HasOps {
					want = append(want, r)
				} else {
					optional[r.ServerSeq] = true
				}
			}
		}
		var got []gotChange
		for _, g := range e.Got {
			if !optional[g.ServerSeq] {
				got = append(got, g)
			}
		}
		res.AddStat("responses_checked_against_log", 1)
		ok := len(want) == len(got)
		if ok {
			for j := range want {
				if want[j].Actor != got[j].Actor || want[j].ClientSeq != got[j].ClientSeq || want[j].ServerSeq != got[j].ServerSeq {
					ok = false
					break
				}
			}
		}
		if !ok {
			add("pull-differs-from-log: %s %s (attachment %d) reqS=%d respS=%d returned %v, expected from the log %v", e.Client, e.Kind, e.Attach, e.ReqS, e.RespS, e.Got, want)
		}
		for _, g := range e.Got {
			if g.Actor == e.Actor && g.ServerSeq > oldLimit {
				add("own-change-echoed: %s received its own change clientSeq=%d serverSeq=%d", e.Client, g.ClientSeq, g.ServerSeq)
			}
		}
	}
	// 7. real-time order
	// rows pushed by an event: the rows of its actor whose clientSeq it carried and that lie in (prev head .. respS]
	type span struct{ lo, hi int64 }
	spanOf := make([]span, len(evs))
	posOf := map[string][]int64{} // actor -> serverSeqs in log order
	for _, r := range rows {
		posOf[r.Actor] = append(posOf[r.Actor], r.ServerSeq)
	}
	cursor := map[string]int{}
	seenPush := map[ak]uint32{}
	for i := range evs {
		e := &evs[i]
		if e.Err != "" {
			continue
		}
		k := ak{e.Actor, e.Attach}
		n := 0
		for _, cs := range e.Pushed {
			if cs > seenPush[k] {
				n++
				seenPush[k] = cs
			}
		}
		if n > 0 {
			c := cursor[e.Actor]
			if c+n <= len(posOf[e.Actor]) {
				spanOf[i] = span{posOf[e.Actor][c], posOf[e.Actor][c+n-1]}
			}
			cursor[e.Actor] = c + n
		}
	}
	overl := int64(0)
	for i := range evs {
		for j := range evs {
			if i == j || evs[i].Err != "" || evs[j].Err != "" {
				continue
			}
			a, b := &evs[i], &evs[j]
			if a.Ret < b.Call {
				if !a.PushOnly && !b.PushOnly && a.RespS > b.RespS {
					add("real-time-order: %s (returned at tick %d with S'=%d) finished before %s was called (tick %d) which got S'=%d", a.Client, a.Ret, a.RespS, b.Client, b.Call, b.RespS)
				}
				if spanOf[i].hi > 0 && spanOf[j].lo > 0 && spanOf[i].hi > spanOf[j].lo {
					add("real-time-push-order: rows of %s (up to serverSeq %d) were acknowledged before %s was called, whose rows start at %d", a.Client, spanOf[i].hi, b.Client, spanOf[j].lo)
				}
			} else if i < j && a.Call < b.Ret && b.Call < a.Ret {
				overl++
			}
		}
	}
	res.AddStat("overlapping_request_pairs", overl)
	return bad
}

// ---- porcupine ----

type pIn struct {
	Actor    string
	Own      string // prefix of the ids pushed in this attachment
	ReqS     int64
	IDs      []string
	PushOnly bool
	Snapshot bool
}
type pOut struct {
	RespS int64
	Got   []string
}
type pState struct{ ids []string }

func porcupineCheck(evs []rpcEv, rows []logRow) porcupine.CheckResult {
	hasOps := map[string]bool{}
	for _, r := range rows {
		hasOps[fmt.Sprintf("@%d", r.ServerSeq)] = r.HasOps
	}
	var ops []porcupine.Operation
	seen := map[string]uint32{}
	lastIDs := map[string][]string{}
	cid := map[string]int{}
	for _, e := range evs {
		if e.Err != "" {
			continue
		}
		if _, ok := cid[e.Client]; !ok {
			cid[e.Client] = len(cid)
		}
		k := fmt.Sprintf("%s#%d", e.Actor, e.Attach)
		in := pIn{Actor: e.Actor, Own: k + "/", ReqS: e.ReqS, PushOnly: e.PushOnly, Snapshot: e.Snapshot}
		if e.Dup {
			// the same ids as its original (called just before it): whichever of the two the
			// server handles first appends them, the model's append is idempotent
			in.IDs = append(in.IDs, lastIDs[k]...)
		} else {
			for _, cs := range e.Pushed {
				if cs > seen[k] {
					seen[k] = cs
					in.IDs = append(in.IDs, fmt.Sprintf("%s/%d", k, cs))
				}
			}
			lastIDs[k] = in.IDs
		}
		out := pOut{RespS: e.RespS}
		for _, g := range e.Got {
			// returned changes are identified by their position in the final log
			if g.ServerSeq >= 1 && g.ServerSeq <= int64(len(rows)) {
				out.Got = append(out.Got, fmt.Sprintf("@%d", g.ServerSeq))
			} else {
				out.Got = append(out.Got, fmt.Sprintf("?%s/%d", g.Actor, g.ClientSeq))
			}
		}
		ops = append(ops, porcupine.Operation{ClientId: cid[e.Client], Input: in, Call: e.Call, Output: out, Return: e.Ret})
	}
	model := porcupine.Model{
		Init: func() interface{} { return pState{} },
		Step: func(st, input, output interface{}) (bool, interface{}) {
			s := st.(pState)
			in := input.(pIn)
			out := output.(pOut)
			ns := pState{ids: append([]string(nil), s.ids...)}
			for _, id := range in.IDs {
				dup := false
				for i := len(s.ids) - 1; i >= 0 && !dup; i-- {
					dup = s.ids[i] == id
				}
				if !dup {
					ns.ids = append(ns.ids, id)
				}
			}
			if in.PushOnly {
				return out.RespS == in.ReqS && len(out.Got) == 0, ns
			}
			if out.RespS != int64(len(ns.ids)) {
				return false, ns
			}
			if in.Snapshot {
				return true, ns
			}
			if in.ReqS > int64(len(s.ids)) {
				return false, ns
			}
			// positions (1-based) of the rows the requester must get: everything after
			// reqS except rows of its current attachment; own earlier rows without
			// operations are optional
			var want []string
			opt := map[string]bool{}
			for i, id := range s.ids[in.ReqS:] {
				pos := fmt.Sprintf("@%d", in.ReqS+int64(i)+1)
				switch {
				case strings.HasPrefix(id, in.Own):
				case strings.HasPrefix(id, in.Actor+"#") && !hasOps[pos]:
					opt[pos] = true
				default:
					want = append(want, pos)
				}
			}
			var got []string
			for _, g := range out.Got {
				if !opt[g] {
					got = append(got, g)
				}
			}
			if len(want) != len(got) {
				return false, ns
			}
			for i := range want {
				if want[i] != got[i] {
					return false, ns
				}
			}
			return true, ns
		},
		Equal: func(a, b interface{}) bool {
			x, y := a.(pState).ids, b.(pState).ids
			if len(x) != len(y) {
				return false
			}
			for i := len(x) - 1; i >= 0; i-- {
				if x[i] != y[i] {
					return false
				}
			}
			return true
		},
	}
	return porcupine.CheckOperationsTimeout(model, ops, 20*gotime.Second)
}

// ---- worker ----

type yieldHook struct {
	seed atomic.Int64
	on   atomic.Bool
}

var yieldPoints = map[string]bool{"CreateChangeInfos": true, "FindChangeInfosBetweenServerSeqs": true,
	"UpdateMinVersionVector": true, "UpdateClientInfoAfterPushPull": true, "FindDocInfoByRefKey": true, "FindClientInfoByRefKey": true}

func (y *yieldHook) jitter() {
	if !y.on.Load() {
		return
	}
	x := y.seed.Add(0x9E3779B97F4A7C15 >> 1)
	x ^= x >> 29
	switch uint64(x) % 8 {
	case 0, 1, 2:
		runtime.Gosched()
	case 3:
		gotime.Sleep(gotime.Duration(uint64(x>>8)%2000) * gotime.Microsecond)
	}
}
func (y *yieldHook) Before(m string) error {
	if yieldPoints[m] {
		y.jitter()
	}
	return nil
}
func (y *yieldHook) After(m string, _ error) error {
	if yieldPoints[m] {
		y.jitter()
	}
	return nil
}

type c04Worker struct {
	*simWorker
	fdb *faultdb.DB
	yh  *yieldHook
}

func (c04) NewWorker(tier string, seed int64) (runner.Worker, error) {
	sw, err := newSimWorker(tier, seed, boot.Options{})
	if err != nil {
		return nil, err
	}
	w := &c04Worker{simWorker: sw, yh: &yieldHook{}}
	w.fdb = faultdb.Wrap(sw.env.BE.DB)
	sw.env.BE.DB = w.fdb
	w.fdb.SetHook(w.yh)
	return w, nil
}

type c04Replay struct {
	Mode   string       `json:"mode"`
	Seed   int64        `json:"seed"`
	Idx    int          `json:"idx"`
	Events []rpcEv      `json:"events,omitempty"`
	Log    []logRow     `json:"log,omitempty"`
	H      *sim.History `json:"h,omitempty"`
}

func (w *c04Worker) runParallel(res *runner.CaseResult, idx int) {
	rng := caseRng(w.seed^0xc04, idx)
	nCli := 4 + rng.Intn(9)
	iters := 6 + rng.Intn(8)
	snap := []int64{0, 0, 25}[rng.Intn(3)]
	proj, err := w.project(snap)
	if err != nil {
		res.Inconclusive = err.Error()
		return
	}
	rec := newRecorder()
	docKey := key.Key(fmt.Sprintf("c04-par-%d-%d-%d", w.seed, idx, gotime.Now().UnixNano()%1000000))
	ctx := context.Background()
	w.yh.seed.Store(w.seed*7919 + int64(idx))
	w.yh.on.Store(true)
	defer w.yh.on.Store(false)
	reps := make([]*replica.Replica, nCli)
	var wg sync.WaitGroup
	var failMu sync.Mutex
	var fails []string
	fail := func(s string) {
		failMu.Lock()
		if len(fails) < 5 {
			fails = append(fails, s)
		}
		failMu.Unlock()
	}
	for i := 0; i < nCli; i++ {
		r := replica.New(fmt.Sprintf("p%d", i), proj.PublicKey, fmt.Sprintf("c04-%d-%d-%d", w.seed, idx, i), w.env.RPC(proj.PublicKey))
		r.Obs = rec
		reps[i] = r
	}
	var dupSent atomic.Int64
	defer func() { res.AddStat("racing_retransmissions", dupSent.Load()) }()
	start := make(chan struct{})
	for i := 0; i < nCli; i++ {
		wg.Add(1)
		go func(i int) {
			defer wg.Done()
			r := reps[i]
			lr := rand.New(rand.NewSource(w.seed*1000003 + int64(idx)*131 + int64(i)))
			if err := r.Activate(ctx); err != nil {
				fail("activate: " + err.Error())
				return
			}
			<-start
			if err := r.Attach(ctx, docKey, replica.AttachOpts{Presence: map[string]string{"n": r.Name}}); err != nil {
				fail(r.Name + " attach: " + err.Error())
				return
			}
			uid := 0
			for it := 0; it < iters; it++ {
				ne := lr.Intn(4)
				for e := 0; e < ne; e++ {
					uid++
					v := fmt.Sprintf("%s-%d", r.Name, uid)
					if err := r.Update(func(root *yjson.Object, p *presence.Presence) error {
						root.SetString(r.Name, v)
						return nil
					}); err != nil {
						fail(r.Name + " update: " + err.Error())
						return
					}
				}
				if lr.Intn(100) < 12 {
					// a retransmission races its original: the same request is in flight twice
					// (what a client-side timeout with a retry produces while the server is still
					// busy with the first copy). The client applies the original's response only.
					if err := r.SyncBegin(false); err != nil {
						fail(r.Name + " sync: " + err.Error())
						return
					}
					req, pack := r.Pending.Req, r.Pending.ReqPack
					dup, back := make(chan struct{}), make(chan struct{})
					go func() {
						defer close(dup)
						// the copy leaves after the original's call event is on record (its effect
						// then falls inside the original's call/return window, where the history
						// checkers place it) and never after the original has returned
						for !rec.isOpen(r.Name) {
							select {
							case <-back:
								return
							default:
								runtime.Gosched()
							}
						}
						if d := int(req.ChangePack.Checkpoint.ClientSeq) % 3; d > 0 {
							gotime.Sleep(gotime.Duration(d*150) * gotime.Microsecond)
						}
						dupSent.Add(1)
						ev := rec.openDup(r, pack)
						pb, err := r.SendRaw(ctx, req)
						rec.closeDup(ev, pb, err)
					}()
					err := r.SyncSend(ctx)
					close(back)
					<-dup
					if err != nil {
						r.Pending = nil
						fail(r.Name + " sync (with a racing retransmission): " + err.Error())
						return
					}
					if err := r.SyncEnd(); err != nil {
						fail(r.Name + " sync (with a racing retransmission): " + err.Error())
						return
					}
				} else if err := r.Sync(ctx, lr.Intn(100) < 15); err != nil {
					fail(r.Name + " sync: " + err.Error())
					return
				}
				if lr.Intn(100) < 6 {
					if err := r.Detach(ctx); err != nil {
						fail(r.Name + " detach: " + err.Error())
						return
					}
					if err := r.Attach(ctx, docKey, replica.AttachOpts{Presence: map[string]string{"n": r.Name}}); err != nil {
						fail(r.Name + " re-attach: " + err.Error())
						return
					}
				}
			}
		}(i)
	}
	close(start)
	done := make(chan struct{})
	go func() { wg.Wait(); close(done) }()
	select {
	case <-done:
	case <-gotime.After(5 * gotime.Minute):
		res.Inconclusive = "parallel workload did not finish within the 5 minute watchdog (deadlock freedom is C16's verdict)"
		return
	}
	w.yh.on.Store(false)
	w.env.WaitIdle()
	// sequential quiescent rounds
	for round := 0; round < 2; round++ {
		for _, r := range reps {
			if r.Doc != nil && r.Doc.Status() == document.StatusAttached {
				if err := r.Sync(ctx, false); err != nil {
					fail(r.Name + " final sync: " + err.Error())
				}
			}
		}
	}
	w.env.WaitIdle()
	di, err := w.env.BE.DB.FindDocInfoByKey(ctx, proj.ID, docKey)
	if err != nil {
		res.Inconclusive = "doc info: " + err.Error()
		return
	}
	log, err := w.env.BE.DB.FindChangeInfosBetweenServerSeqs(ctx, di.RefKey(), 1, 1<<62)
	if err != nil {
		res.Inconclusive = "log: " + err.Error()
		return
	}
	rows := toRows(log)
	rec.mu.Lock()
	evs := append([]rpcEv(nil), rec.evs...)
	rec.mu.Unlock()
	res.AddStat("rpc_events", int64(len(evs)))
	res.AddStat("log_rows", int64(len(rows)))
	res.AddStat("parallel_cases", 1)
	rp := c04Replay{Mode: "par", Seed: w.seed, Idx: idx, Events: evs, Log: rows}
	for _, f := range fails {
		res.Violate("request-failed", f, "", rp)
	}
	for _, b := range checkLogAndResponses(evs, rows, res) {
		kind := b[:strings.Index(b, ":")]
		res.Violate(kind, b, "", rp)
	}
	// convergence of the result
	var ref string
	for _, r := range reps {
		if r.Doc == nil || r.Doc.Status() != document.StatusAttached {
			continue
		}
		m := r.Doc.Marshal()
		if ref == "" {
			ref = m
		} else if m != ref {
			res.Violate("divergence-after-storm", fmt.Sprintf("%s: %s\nvs %s", r.Name, m, ref), "", rp)
			break
		}
	}
	switch porcupineCheck(evs, rows) {
	case porcupine.Ok:
		res.AddStat("porcupine_ok", 1)
	case porcupine.Illegal:
		res.Violate("not-linearizable", "porcupine found no linearization of the recorded history against the sequential append-and-pull model", "", rp)
	default:
		res.AddStat("porcupine_timeout", 1)
	}
	pushers := map[string]bool{}
	for _, r := range rows {
		pushers[r.Actor] = true
	}
	res.Hash = runner.HashOf(evs)
	res.Nontrivial = len(pushers) >= 2 && res.Stats["overlapping_request_pairs"] > 0
	if idx%17 == 0 || len(res.Viol) > 0 {
		n := len(evs)
		if n > 12 {
			n = 12
		}
		b, _ := json.Marshal(map[string]any{"mode": "par", "clients": nCli, "iterations": iters, "snapshot_threshold": snap,
			"first_events": evs[:n], "log_rows": len(rows), "overlapping_pairs": res.Stats["overlapping_request_pairs"]})
		res.Sample = b
	}
}

func (w *c04Worker) runSequential(res *runner.CaseResult, idx int, replay *sim.History) {
	g := c01GenCfg(w.tier, w.seed^0x404, idx)
	g.PushOnlyPct = 20
	g.DetachPct = 5
	g.SplitSyncPct = 25
	cfg := sim.WorldCfg{Snap: []int64{0, 0, 4}[idx%3]}
	proj, err := w.project(cfg.Snap)
	if err != nil {
		res.Inconclusive = err.Error()
		return
	}
	world := sim.NewWorld(w.env, proj, cfg, fmt.Sprintf("c04s-%d", idx))
	rec := newRecorder()
	world.Obs = rec
	var vet Vetoed
	g.Guard = makeGuard(Guards{ArrSetMoved: true, InsertBeforeTombstone: true}, &vet)
	var h sim.History
	if replay != nil {
		h = *replay
		world.RunHistory(h)
	} else {
		h = world.RunGenerated(caseRng(w.seed^0x4040, idx), g)
	}
	log, err := world.ServerLog()
	if err != nil {
		res.Inconclusive = "log: " + err.Error()
		return
	}
	rows := toRows(log)
	evs := append([]rpcEv(nil), rec.evs...)
	res.AddStat("rpc_events", int64(len(evs)))
	res.AddStat("log_rows", int64(len(rows)))
	res.AddStat("sequential_cases", 1)
	rp := c04Replay{Mode: "seq", Seed: w.seed, Idx: idx, H: &h}
	if len(world.Fail) > 0 {
		// sync errors / divergence are C01-C03's business; the log oracle still applies to what was recorded
		res.AddStat("world_failures_not_judged_here", 1)
	}
	var clean []rpcEv
	for _, e := range evs {
		if e.Err == "" {
			clean = append(clean, e)
		}
	}
	if len(world.Fail) == 0 {
		for _, b := range checkLogAndResponses(clean, rows, res) {
			kind := b[:strings.Index(b, ":")]
			res.Violate(kind, b, "", rp)
		}
	}
	pushers := map[string]bool{}
	for _, r := range rows {
		pushers[r.Actor] = true
	}
	res.Hash = runner.HashOf(h.Steps)
	res.Nontrivial = len(pushers) >= 2
	if idx%41 == 1 {
		res.Sample = sampleOf(h, map[string]any{"mode": "seq", "log_rows": len(rows)})
	}
}

func (w *c04Worker) Run(idx int) runner.CaseResult {
	res := runner.CaseResult{Case: fmt.Sprintf("c04-%d", idx)}
	if idx%3 == 2 {
		w.runSequential(&res, idx, nil)
	} else {
		w.runParallel(&res, idx)
	}
	return res
}

func (w *c04Worker) Replay(data json.RawMessage) runner.CaseResult {
	res := runner.CaseResult{Case: "replay"}
	var rp c04Replay
	if err := json.Unmarshal(data, &rp); err != nil {
		res.Inconclusive = err.Error()
		return res
	}
	if rp.Mode == "seq" && rp.H != nil {
		w.runSequential(&res, rp.Idx, rp.H)
		return res
	}
	// a parallel history is judged on its RECORDED events (the schedule cannot be forced again)
	for _, b := range checkLogAndResponses(rp.Events, rp.Log, &res) {
		kind := b[:strings.Index(b, ":")]
		res.Violate(kind, b, "", rp)
	}
	if porcupineCheck(rp.Events, rp.Log) == porcupine.Illegal {
		res.Violate("not-linearizable", "porcupine: recorded history is not linearizable", "", rp)
	}
	return res
}

var _ = gen.InitEdits
