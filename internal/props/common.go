// Package props holds one file per property: its case list, worker and oracle.
package props

import (
	"context"
	"encoding/json"
	"fmt"
	"math/rand"

	"github.com/yorkie-team/yorkie/api/types"

	"verif/internal/boot"
	"verif/internal/runner"
	"verif/internal/sim"
)

// Registry of all properties.
var Registry = map[string]runner.Prop{}

func register(p runner.Prop) { Registry[p.ID()] = p }

func caseRng(seed int64, idx int) *rand.Rand {
	return rand.New(rand.NewSource(seed*1_000_003 + int64(idx)*7919 + 17))
}

// simWorker is the shared base of the history-driven workers.
type simWorker struct {
	env   *boot.Env
	projs map[string]*types.Project
	tier  string
	seed  int64
}

func newSimWorker(tier string, seed int64, o boot.Options) (*simWorker, error) {
	env, err := boot.Start(o)
	if err != nil {
		return nil, err
	}
	return &simWorker{env: env, projs: map[string]*types.Project{}, tier: tier, seed: seed}, nil
}

func (w *simWorker) Close() { w.env.Stop() }

// project returns (creating on first use) a project with the given snapshot setting.
func (w *simWorker) project(snap int64) (*types.Project, error) {
	k := fmt.Sprintf("s%d", snap)
	if p, ok := w.projs[k]; ok {
		return p, nil
	}
	th := snap
	if th == 0 {
		th = boot.NoSnapshot
	}
	p, err := w.env.NewProject(context.Background(), "p"+k, boot.ProjectOpts{SnapshotInterval: th, SnapshotThreshold: th})
	if err != nil {
		return nil, err
	}
	w.projs[k] = p
	return p, nil
}

// projectLimited is project() with an attachment limit that is never reached: every attach
// and detach then goes through the doc-attachment locker (a project without a limit never
// takes it).
func (w *simWorker) projectLimited(snap int64) (*types.Project, error) {
	k := fmt.Sprintf("s%d-limited", snap)
	if p, ok := w.projs[k]; ok {
		return p, nil
	}
	th := snap
	if th == 0 {
		th = boot.NoSnapshot
	}
	p, err := w.env.NewProject(context.Background(), "pl"+k, boot.ProjectOpts{SnapshotInterval: th, SnapshotThreshold: th, MaxAttachments: 1000})
	if err != nil {
		return nil, err
	}
	w.projs[k] = p
	return p, nil
}

func failuresTo(res *runner.CaseResult, w *sim.World, h sim.History, identFn func(f sim.Failure) string) {
	for _, f := range w.Fail {
		id := ""
		if identFn != nil {
			id = identFn(f)
		}
		res.Violate(f.Kind, f.Detail, id, h)
	}
}

func sampleOf(h sim.History, extra map[string]any) json.RawMessage {
	var steps []string
	for i, s := range h.Steps {
		if i >= 40 {
			steps = append(steps, fmt.Sprintf("... %d more", len(h.Steps)-i))
			break
		}
		steps = append(steps, s.String())
	}
	m := map[string]any{"cfg": h.Cfg, "steps": steps}
	for k, v := range extra {
		m[k] = v
	}
	b, _ := json.Marshal(m)
	return b
}
