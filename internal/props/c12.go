package props

import (
	"encoding/json"
	"fmt"
	"sort"
	"strings"

	"github.com/yorkie-team/yorkie/api/converter"
	api "github.com/yorkie-team/yorkie/api/yorkie/v1"
	"github.com/yorkie-team/yorkie/pkg/document/change"

	"verif/internal/boot"
	"verif/internal/gen"
	"verif/internal/replica"
	"verif/internal/runner"
	"verif/internal/sim"
)

type c12 struct{}

func init() { register(c12{}) }

func (c12) ID() string    { return "C12" }
func (c12) Level() string { return "exploration" }
func (c12) Rule() string {
	return "case = a generated history mixing presence set / replace with edits, attach with initial presence, detach, server-side " +
		"deactivation (cluster detach), late attachers, snapshot pulls (threshold in {0,2,4}), on a document created with presence " +
		"ENABLED or DISABLED (fixed at first attach); later attachers sometimes ask for the other setting; on presenceless " +
		"documents some replicas turn hostile and keep sending presence. Monitors: every response pack is decoded (changes and " +
		"snapshot) at the client boundary; the stored log is read at every quiescent point. Oracle: on presence-enabled documents, " +
		"at quiescence AllPresences() is identical on all attached replicas and its key set equals the attached replicas that " +
		"sent presence, each entry equal to its author's own view; on presenceless documents no stored change has a presence " +
		"change, no presence-only (operation-less) row exists, and no response change or snapshot carries presence. " +
		"Non-trivial = >=1 presence change after attach and >=2 attached replicas compared (enabled) / >=1 hostile or " +
		"mismatching attacher (disabled). sdk family (every eighth case): the real client.Client with every attach option, same oracle on MyPresence()/AllPresences() and the stored log."
}
func (c12) Assumptions() []string {
	return []string{"memdb", "replicas do not watch (no online-client set), so AllPresences() is compared, not Presences()",
		"what a hostile sender keeps in its own local map is not judged"}
}
func (c12) NumCases(tier string, _ int64) int {
	if tier == "thorough" {
		return 80000
	}
	return 5000
}
func (c12) Exhaustive(string) bool { return false }
func (c12) Floors(string) []runner.Floor {
	return []runner.Floor{{Stat: "presence_comparisons", Min: 500}, {Stat: "presenceless_responses_checked", Min: 2000}, {Stat: "snapshot_pulls", Min: 200},
		{Stat: "sdk_calls", Min: 5000}, {Stat: "sdk_presence_comparisons", Min: 300}, {Stat: "sdk_presenceless_views_checked", Min: 100}}
}

type c12Worker struct{ *simWorker }

func (c12) NewWorker(tier string, seed int64) (runner.Worker, error) {
	sw, err := newSimWorker(tier, seed, boot.Options{})
	if err != nil {
		return nil, err
	}
	return &c12Worker{sw}, nil
}

func presOf(m map[string]string) string {
	var ks []string
	for k := range m {
		ks = append(ks, k)
	}
	sort.Strings(ks)
	var sb strings.Builder
	for _, k := range ks {
		fmt.Fprintf(&sb, "%s=%q ", k, m[k])
	}
	return sb.String()
}

func (w *c12Worker) run(res *runner.CaseResult, idx int, seed int64, replay *sim.History, noPres bool) {
	rng := caseRng(seed^0xc12, idx)
	g := sim.GenCfg{
		N: 2 + rng.Intn(3), MaxReps: 5, Steps: 14 + rng.Intn(30), Profile: gen.DefaultProfile(),
		SplitSyncPct: 10, PushOnlyPct: 5, DetachPct: 6, QuiescePct: 6, MultiEditPct: 5, EditPct: 55,
		PresencePct: 45, DeactivatePct: 35, FirstNoPres: noPres, OtherPresPct: 25, HostilePct: 50,
	}
	if w.tier == "thorough" {
		g.Steps = 14 + rng.Intn(60)
	}
	var vet Vetoed
	g.Guard = makeGuard(Guards{ArrSetMoved: true, InsertBeforeTombstone: true}, &vet)
	cfg := sim.WorldCfg{Snap: []int64{0, 2, 4}[rng.Intn(3)]}
	if replay != nil {
		cfg = replay.Cfg
	}
	proj, err := w.project(cfg.Snap)
	if err != nil {
		res.Inconclusive = err.Error()
		return
	}
	world := sim.NewWorld(w.env, proj, cfg, fmt.Sprintf("c12-%d", idx))
	var fails []sim.Failure
	fail := func(kind, detail string) {
		if len(fails) < 4 {
			fails = append(fails, sim.Failure{Kind: kind, Detail: fmt.Sprintf("step %d: %s", len(world.Events), detail)})
		}
	}
	sentPresence := map[string]bool{} // replicas attached with presence (by name), current attachment
	hostile := false
	mismatch := false
	obs := &packObs{}
	obs.onResp = func(r *replica.Replica, kind string, req *change.Pack, pb *api.ChangePack, err error) {
		if err != nil || pb == nil || !noPres {
			return
		}
		res.AddStat("presenceless_responses_checked", 1)
		for _, c := range pb.Changes {
			if c.PresenceChange != nil {
				fail("presence-returned", fmt.Sprintf("response to %s (%s) on a presenceless document carries a change (serverSeq %d) with a presence change", r.Name, kind, c.Id.GetServerSeq()))
			}
		}
		if len(pb.Snapshot) > 0 {
			_, pres, e := converter.BytesToSnapshot(pb.Snapshot)
			if e == nil && pres != nil && len(pres.ToMap()) > 0 {
				fail("presence-in-snapshot", fmt.Sprintf("snapshot sent to %s (%s) on a presenceless document carries presences %v", r.Name, kind, pres.ToMap()))
			}
		}
	}
	world.Obs = obs
	world.AfterStep = func(wd *sim.World, st sim.Step, r *replica.Replica) {
		switch st.T {
		case "attach":
			sentPresence[r.Name] = !st.NoPres && !noPres
			if st.NoPres != noPres {
				mismatch = true
			}
		case "detach", "deactivate":
			delete(sentPresence, r.Name)
		case "hostile-presence":
			hostile = true
		}
	}
	checkLog := func() {
		if !noPres {
			return
		}
		log, err := world.ServerLog()
		if err != nil {
			return
		}
		for _, row := range log {
			res.AddStat("presenceless_rows_checked", 1)
			if row.PresenceChange != nil {
				fail("presence-stored", fmt.Sprintf("stored change serverSeq %d of a presenceless document has a presence change %+v", row.ServerSeq, *row.PresenceChange))
				return
			}
			if len(row.Operations) == 0 {
				fail("presence-only-row-stored", fmt.Sprintf("stored change serverSeq %d of a presenceless document has no operations (a stripped presence-only change was stored)", row.ServerSeq))
				return
			}
		}
	}
	world.OnQuiesce = func(wd *sim.World, att []*replica.Replica) {
		checkLog()
		if noPres {
			// nobody may see somebody else's presence
			for _, r := range att {
				for actor := range r.Doc.AllPresences() {
					if actor != r.ID.String() {
						fail("foreign-presence-on-presenceless-doc", fmt.Sprintf("%s sees presence of %s on a presenceless document", r.Name, actor))
					}
				}
			}
			return
		}
		if len(att) < 2 {
			return
		}
		res.AddStat("presence_comparisons", 1)
		// expected key set
		want := map[string]bool{}
		for _, r := range att {
			// a participant "has presence" when its own view holds an entry for itself
			// (initial presence on attach, or any later presence update)
			if _, ok := r.Doc.AllPresences()[r.ID.String()]; ok {
				want[r.ID.String()] = true
			}
		}
		byActor := map[string]*replica.Replica{}
		for _, r := range att {
			byActor[r.ID.String()] = r
		}
		for _, r := range att {
			all := r.Doc.AllPresences()
			var got, exp []string
			for k := range all {
				got = append(got, k)
			}
			for k := range want {
				exp = append(exp, k)
			}
			sort.Strings(got)
			sort.Strings(exp)
			if fmt.Sprint(got) != fmt.Sprint(exp) {
				fail("presence-participants-wrong", fmt.Sprintf("%s sees presences of %v, attached participants with presence are %v", r.Name, got, exp))
				return
			}
			for actor, data := range all {
				author := byActor[actor]
				if author == nil {
					continue
				}
				own := author.Doc.AllPresences()[actor]
				if presOf(data) != presOf(own) {
					fail("presence-diverged", fmt.Sprintf("%s sees presence of %s as {%s}, its author %s holds {%s}", r.Name, actor, presOf(data), author.Name, presOf(own)))
					return
				}
			}
		}
	}
	var h sim.History
	if replay != nil {
		h = *replay
		world.RunHistory(h)
	} else {
		h = world.RunGenerated(caseRng(seed, idx), g)
	}
	checkLog()
	res.Hash = runner.HashOf(map[string]any{"s": h.Steps, "np": noPres})
	historyStats(res, world, h)
	res.AddStat("snapshot_pulls", int64(obs.snapshots))
	res.AddSet("doc_modes", fmt.Sprintf("disable_presence=%v", noPres))
	presEdits := 0
	for _, st := range h.Steps {
		for _, e := range st.E {
			if strings.HasPrefix(e.Op, "pres.") {
				presEdits++
			}
		}
	}
	if noPres {
		res.Nontrivial = hostile || mismatch
	} else {
		res.Nontrivial = presEdits >= 1 && res.Stats["presence_comparisons"] >= 1
	}
	type rp struct {
		H      sim.History `json:"h"`
		NoPres bool        `json:"no_pres"`
	}
	for _, f := range fails {
		res.Violate(f.Kind, f.Detail, "", rp{H: h, NoPres: noPres})
	}
	if len(world.Fail) > 0 {
		res.AddStat("world_failures_not_judged_here", 1)
		d := world.Fail[0].Detail
		if i := strings.Index(d, ": "); i > 0 {
			d = d[i+2:]
		}
		if len(d) > 90 {
			d = d[:90]
		}
		res.AddSet("world_failure_kinds", world.Fail[0].Kind+": "+d)
		res.Notes = append(res.Notes, world.Fail[0].Kind+": "+world.Fail[0].Detail)
	}
	if idx%97 == 0 || len(res.Viol) > 0 {
		res.Sample = sampleOf(h, map[string]any{"disable_presence": noPres, "presence_edits": presEdits})
	}
}

func (w *c12Worker) Run(idx int) runner.CaseResult {
	res := runner.CaseResult{Case: fmt.Sprintf("c12-%d", idx)}
	if idx%8 == 5 {
		w.runSDK(&res, idx, nil)
		return res
	}
	w.run(&res, idx, w.seed, nil, idx%3 == 0)
	return res
}

func (w *c12Worker) Replay(data json.RawMessage) runner.CaseResult {
	res := runner.CaseResult{Case: "replay"}
	var fam struct {
		Family string `json:"family"`
	}
	if json.Unmarshal(data, &fam) == nil && fam.Family == "sdk" {
		var sr sdkReplay
		if err := json.Unmarshal(data, &sr); err != nil {
			res.Inconclusive = err.Error()
			return res
		}
		w.seed = sr.Seed
		w.runSDK(&res, sr.Idx, &sr)
		return res
	}
	var rp struct {
		H      sim.History `json:"h"`
		NoPres bool        `json:"no_pres"`
	}
	if err := json.Unmarshal(data, &rp); err != nil {
		res.Inconclusive = err.Error()
		return res
	}
	w.run(&res, 0, 1, &rp.H, rp.NoPres)
	return res
}
