package props

import (
	"encoding/json"
	"fmt"
	"os"
	"strings"
	"testing"

	"verif/internal/runner"
)

func TestC15Dbg(t *testing.T) {
	f := os.Getenv("C15_REPLAY")
	if f == "" {
		t.Skip()
	}
	b, _ := os.ReadFile(f)
	var d struct {
		Replay c15Replay `json:"replay"`
	}
	_ = json.Unmarshal(b, &d)
	res := runner.CaseResult{}
	w := newC15World(&res, d.Replay)
	show := func(tag string) {
		for _, n := range w.names {
			fmt.Printf("  %-28s %s: %s  garbage=%d vv=%v\n", tag, n, w.docs[n].Marshal(), w.docs[n].GarbageLen(), w.docs[n].VersionVector())
			if os.Getenv("C15_STRUCT") != "" {
				var sb strings.Builder
				digestElem(w.docs[n].RootObject(), &sb)
				fmt.Println("      ", sb.String())
			}
		}
	}
	show("base")
	for _, st := range d.Replay.Steps {
		w.do(st)
		show(st.String())
	}
	w.finish()
	show("finish")
	for _, v := range res.Viol {
		fmt.Println(v.Kind, v.Ident, v.Detail)
	}
}

func TestC15Enum(t *testing.T) {
	if os.Getenv("VERIF_C15_FIND") == "" {
		t.Skip()
	}
	w := &c15Worker{tier: "quick", seed: 1}
	for idx := 88; idx < 96; idx++ {
		res := runner.CaseResult{}
		w.runExhaustive(&res, idx)
		fmt.Println("idx", idx, "histories", res.Stats["histories_evaluated"], "viol", len(res.Viol))
	}
}

func TestC15Flags(t *testing.T) {
	f := os.Getenv("C15_REPLAY")
	if f == "" {
		t.Skip()
	}
	b, _ := os.ReadFile(f)
	var d struct {
		Replay c15Replay `json:"replay"`
	}
	_ = json.Unmarshal(b, &d)
	res := runner.CaseResult{}
	w := newC15World(&res, d.Replay)
	for _, st := range d.Replay.Steps {
		w.do(st)
	}
	w.finish()
	fmt.Printf("flags: recreated=%v placementOnly=%v editedAfter=%v restores=%d undoAfterPurge=%v race=%v\n", w.recreated, w.onlyPlacementDiffers, w.editedAfterRecreation, w.restores, w.undoAfterPurge, w.race)
	fmt.Println("bagA:", contentBag(w.docs["A"]))
}
