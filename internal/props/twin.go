package props

import (
	"fmt"
	"math/rand"
	"sort"

	api "github.com/yorkie-team/yorkie/api/yorkie/v1"
	"github.com/yorkie-team/yorkie/pkg/document/change"

	"verif/internal/replica"
	"verif/internal/runner"
	"verif/internal/sim"
)

// packObs counts what crosses the wire.
type packObs struct {
	snapshots int
	responses int
	onResp    func(r *replica.Replica, kind string, req *change.Pack, pb *api.ChangePack, err error)
	onReq     func(r *replica.Replica, kind string, pack *change.Pack)
	onApplied func(r *replica.Replica, kind string, pack *change.Pack)
}

func (o *packObs) OnApplied(r *replica.Replica, kind string, pack *change.Pack) {
	if o.onApplied != nil {
		o.onApplied(r, kind, pack)
	}
}

func (o *packObs) OnRequest(r *replica.Replica, kind string, pack *change.Pack) {
	if o.onReq != nil {
		o.onReq(r, kind, pack)
	}
}

func (o *packObs) OnResponse(r *replica.Replica, kind string, req *change.Pack, pb *api.ChangePack, err error) {
	if err == nil && pb != nil {
		o.responses++
		if len(pb.Snapshot) > 0 {
			o.snapshots++
		}
	}
	if o.onResp != nil {
		o.onResp(r, kind, req, pb, err)
	}
}

// quiescePoint is the content of every attached replica at a quiescent point.
type quiescePoint struct {
	names    []string
	contents []string
}

// twinRun executes a generated history in a primary world and replays it in a
// twin world with another configuration, recording contents at each quiescent
// point of both.
type twinRun struct {
	A, B   *sim.World
	H      sim.History
	QA, QB []quiescePoint
	ObsA   *packObs
	ObsB   *packObs
	Purges int64
}

func recordQuiesce(dst *[]quiescePoint, checkDiv bool) func(w *sim.World, att []*replica.Replica) {
	return func(w *sim.World, att []*replica.Replica) {
		qp := quiescePoint{}
		for _, r := range att {
			qp.names = append(qp.names, r.Name)
			qp.contents = append(qp.contents, r.Doc.Marshal())
		}
		*dst = append(*dst, qp)
		if checkDiv {
			if ok, d := sim.CompareContent(att); !ok {
				w.Fail = append(w.Fail, sim.Failure{Kind: "divergence", Detail: "replicas differ after a quiescent round:\n" + d, Step: len(w.Events)})
			}
		}
	}
}

func (sw *simWorker) setServerGC(off bool) {
	sw.env.WaitIdle()
	sw.env.BE.Config.SnapshotDisableGC = off
}

func (sw *simWorker) runTwin(tag string, cfgA, cfgB sim.WorldCfg, rng *rand.Rand, g sim.GenCfg, replay *sim.History,
	hookA func(w *sim.World)) (*twinRun, error) {
	pa, err := sw.project(cfgA.Snap)
	if err != nil {
		return nil, err
	}
	pb, err := sw.project(cfgB.Snap)
	if err != nil {
		return nil, err
	}
	t := &twinRun{ObsA: &packObs{}, ObsB: &packObs{}}
	t.A = sim.NewWorld(sw.env, pa, cfgA, tag+"a")
	t.A.Obs = t.ObsA
	t.A.OnQuiesce = recordQuiesce(&t.QA, true)
	garb := map[string]int{}
	t.A.AfterStep = func(w *sim.World, st sim.Step, r *replica.Replica) {
		for _, rr := range w.Reps {
			if rr.Doc == nil {
				continue
			}
			g := rr.Doc.GarbageLen()
			if g < garb[rr.Name] {
				t.Purges++
			}
			garb[rr.Name] = g
		}
	}
	if hookA != nil {
		hookA(t.A)
	}
	sw.setServerGC(cfgA.ServerGCOff)
	if replay != nil {
		t.H = *replay
		t.H.Cfg = cfgA
		t.A.RunHistory(t.H)
	} else {
		t.H = t.A.RunGenerated(rng, g)
	}
	t.B = sim.NewWorld(sw.env, pb, cfgB, tag+"b")
	t.B.Obs = t.ObsB
	t.B.OnQuiesce = recordQuiesce(&t.QB, true)
	sw.setServerGC(cfgB.ServerGCOff)
	hb := t.H
	hb.Cfg = cfgB
	t.B.RunHistory(hb)
	sw.setServerGC(false)
	return t, nil
}

// actorOrder returns the permutation that sorts a world's replicas by actor id.
// Concurrent conflicts are decided by (lamport, actor), and actor ids are
// server-generated ObjectIDs whose counter can wrap inside a long-running
// worker, so two worlds are only comparable when this order is the same.
func actorOrder(w *sim.World) string {
	idx := make([]int, 0, len(w.Reps))
	for i, r := range w.Reps {
		if r.Activated || r.Doc != nil {
			idx = append(idx, i)
		}
	}
	sort.Slice(idx, func(a, b int) bool { return w.Reps[idx[a]].ID.Compare(w.Reps[idx[b]].ID) < 0 })
	return fmt.Sprint(idx)
}

// comparable reports whether the two worlds resolve conflicts identically.
func (t *twinRun) comparable() bool { return actorOrder(t.A) == actorOrder(t.B) }

// compareTwins reports the first content difference between the two worlds.
func (t *twinRun) compareTwins() (bool, string) {
	n := len(t.QA)
	if len(t.QB) < n {
		n = len(t.QB)
	}
	for i := 0; i < n; i++ {
		a, b := t.QA[i], t.QB[i]
		for k := range a.names {
			if k >= len(b.names) {
				break
			}
			if a.contents[k] != b.contents[k] {
				return false, fmt.Sprintf("quiescent point %d, replica %s:\nprimary: %s\ntwin   : %s", i, a.names[k], a.contents[k], b.contents[k])
			}
		}
	}
	return true, ""
}

func addFailures(res *runner.CaseResult, fails []sim.Failure, h sim.History, prefix string) {
	for _, f := range fails {
		res.Violate(prefix+f.Kind, f.Detail, "", h)
	}
}
