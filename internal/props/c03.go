package props

import (
	"encoding/json"
	"fmt"

	"verif/internal/boot"
	"verif/internal/gen"
	"verif/internal/runner"
	"verif/internal/sim"
)

type c03 struct{}

func init() { register(c03{}) }

func (c03) ID() string    { return "C03" }
func (c03) Level() string { return "exploration" }
func (c03) Rule() string {
	return "case = one generated history (delete/overwrite/move/style-removal biased; one replica holds unsent edits while peers " +
		"sync; detach of slow clients; snapshot thresholds 0(never)/3/7 so that server-side GC before snapshots also runs) executed " +
		"twice on the real server: GC on (defaults) and GC off (document.WithDisableGC + SnapshotDisableGC). Oracle: no sync / apply " +
		"error in the GC-on run, replicas converge, and every replica's content at every quiescent point equals its GC-off twin. " +
		"Reported only when the GC-off twin is itself clean. Non-trivial = a purge (GarbageLen drop) was observed on some replica " +
		"in the GC-on run and >=2 replicas edited. Distinct = hash of the step list. Every fifth history has ONE writer that syncs seldom and readers that sync and collect meanwhile (fence of F-RGA-PURGE off there)."
}
func (c03) Assumptions() []string {
	return []string{"memdb backend", "how much is collected is not judged (only counted)", "replica driver mirrors client.Client"}
}
func (c03) NumCases(tier string, _ int64) int {
	if tier == "thorough" {
		return 30000
	}
	return 4000
}
func (c03) Exhaustive(string) bool { return false }
func (c03) Floors(string) []runner.Floor {
	return []runner.Floor{{Stat: "purges_observed", Min: 200}, {Stat: "twin_comparisons", Min: 200}, {Stat: "single_writer_histories", Min: 100}}
}

type c03Worker struct{ *simWorker }

func (c03) NewWorker(tier string, seed int64) (runner.Worker, error) {
	sw, err := newSimWorker(tier, seed, boot.Options{})
	if err != nil {
		return nil, err
	}
	return &c03Worker{sw}, nil
}

func c03GenCfg(tier string, seed int64, idx int) (sim.GenCfg, int64) {
	rng := caseRng(seed^0xc03, idx)
	g := sim.GenCfg{
		N:            2 + rng.Intn(2),
		MaxReps:      4,
		Steps:        14 + rng.Intn(30),
		Profile:      gen.DefaultProfile(),
		SplitSyncPct: 10,
		PushOnlyPct:  5,
		DetachPct:    3,
		QuiescePct:   4,
		MultiEditPct: 10,
		Offline:      rng.Intn(2) == 0,
		EditPct:      50,
	}
	g.Profile.DeleteBias = 40
	if tier == "thorough" {
		g.Steps = 14 + rng.Intn(70)
	}
	switch rng.Intn(6) {
	case 0:
		g.Profile = gen.Profile{Arr: 1, DeleteBias: 45, MaxDepth: 2, NewContainers: 5}
	case 1:
		g.Profile = gen.Profile{Txt: 1, DeleteBias: 45, MaxDepth: 1, Unicode: true, MaxText: 14}
	case 2:
		// every second tree history is style-heavy: styles and style removals over one or several
		// elements, the same few attribute keys removed and set again and again
		g.Profile = gen.Profile{Tree: 1, DeleteBias: 45, MaxDepth: 1, TreeMixed: idx%2 == 1, StyleBias: []int{0, 45}[(idx/2)%2]}
	case 3:
		g.Profile = gen.Profile{Obj: 3, Arr: 1, DeleteBias: 40, MaxDepth: 3, NewContainers: 30}
	case 4:
		// style churn: few deletions (the elements live on), most tree calls set or remove one of
		// the few attribute keys on one or several elements, again and again, while collection runs
		g.Profile = gen.Profile{Tree: 1, DeleteBias: 15, MaxDepth: 1, StyleBias: 65}
	}
	if idx%5 == 4 {
		// one writer, readers that sync (and collect) at their own pace: the writer keeps
		// tombstones its readers have purged already and goes on editing next to them
		// (insertions, moves before / to the front). Nothing is concurrent here, so the
		// fence of F-RGA-PURGE is not needed and is off (see run).
		g.SingleWriter = true
		g.Offline = false
		g.DetachPct = 0
		g.EditPct = 35
		if rng.Intn(3) > 0 {
			g.Profile = gen.Profile{Arr: 1, DeleteBias: 45, MaxDepth: 2, NewContainers: 5}
		}
	}
	snap := []int64{0, 0, 3, 7}[rng.Intn(4)]
	return g, snap
}

func (w *c03Worker) run(res *runner.CaseResult, idx int, replay *sim.History, snap int64, g sim.GenCfg) {
	var vet Vetoed
	g.Guard = makeGuard(Guards{ArrSetMoved: true, InsertBeforeTombstone: !g.SingleWriter}, &vet)
	if g.SingleWriter {
		res.AddStat("single_writer_histories", 1)
	}
	defer func() {
		res.AddStat("guard_vetoes_arr_set_moved", vet.ArrSetMoved)
		res.AddStat("guard_vetoes_insert_before_tombstone", vet.InsertBeforeTombstone)
	}()
	cfgA := sim.WorldCfg{Snap: snap}
	cfgB := sim.WorldCfg{Snap: snap, LocalGCOff: true, ServerGCOff: true}
	if replay != nil {
		cfgA = replay.Cfg
		cfgB = replay.Cfg
		cfgB.LocalGCOff, cfgB.ServerGCOff = true, true
	}
	t, err := w.runTwin(fmt.Sprintf("c03-%d", idx), cfgA, cfgB, caseRng(w.seed, idx), g, replay, nil)
	if err != nil {
		res.Inconclusive = err.Error()
		return
	}
	res.Hash = runner.HashOf(t.H.Steps)
	editors, applied := historyStats(res, t.A, t.H)
	res.AddStat("purges_observed", t.Purges)
	res.AddStat("snapshot_pulls", int64(t.ObsA.snapshots))
	res.Nontrivial = (editors >= 2 || g.SingleWriter) && applied >= 4 && t.Purges > 0
	if len(t.B.Fail) > 0 {
		// the GC-off twin is not clean: not GC's fault (C01/C02 own it)
		res.AddStat("twin_unclean", 1)
		res.Notes = append(res.Notes, "GC-off twin failed: "+t.B.Fail[0].Kind)
		return
	}
	addFailures(res, t.A.Fail, t.H, "gc-on:")
	if len(t.A.Fail) == 0 && !t.comparable() {
		res.AddStat("twin_actor_order_mismatch", 1)
		res.Inconclusive = "actor ids sort differently in the two worlds (ObjectID counter wrap); twin comparison skipped"
	} else if len(t.A.Fail) == 0 {
		res.AddStat("twin_comparisons", int64(len(t.QA)))
		if ok, d := t.compareTwins(); !ok {
			res.Violate("gc-changes-content", "content with GC differs from content without GC:\n"+d, "", t.H)
		}
	}
	if idx%97 == 0 || len(res.Viol) > 0 {
		res.Sample = sampleOf(t.H, map[string]any{"purges": t.Purges, "final": finalContent(t.A)})
	}
}

func (w *c03Worker) Run(idx int) runner.CaseResult {
	res := runner.CaseResult{Case: fmt.Sprintf("c03-%d", idx)}
	g, snap := c03GenCfg(w.tier, w.seed, idx)
	w.run(&res, idx, nil, snap, g)
	return res
}

func (w *c03Worker) Replay(data json.RawMessage) runner.CaseResult {
	res := runner.CaseResult{Case: "replay"}
	var h sim.History
	if err := json.Unmarshal(data, &h); err != nil {
		res.Inconclusive = err.Error()
		return res
	}
	w.run(&res, 0, &h, h.Cfg.Snap, sim.GenCfg{})
	return res
}
