package props

import (
	"context"
	"encoding/json"
	"fmt"
	"github.com/yorkie-team/yorkie/client"
	"github.com/yorkie-team/yorkie/pkg/document"
	"github.com/yorkie-team/yorkie/pkg/document/crdt"
	"math/rand"
	"sync"
	"sync/atomic"
	gotime "time"

	"connectrpc.com/connect"

	"github.com/yorkie-team/yorkie/api/types"
	"github.com/yorkie-team/yorkie/api/types/events"
	api "github.com/yorkie-team/yorkie/api/yorkie/v1"
	yjson "github.com/yorkie-team/yorkie/pkg/document/json"
	"github.com/yorkie-team/yorkie/pkg/document/presence"
	"github.com/yorkie-team/yorkie/pkg/document/time"
	"github.com/yorkie-team/yorkie/pkg/key"
	"github.com/yorkie-team/yorkie/server/backend/pubsub"

	"verif/internal/boot"
	"verif/internal/replica"
	"verif/internal/runner"
)

type c17 struct{}

func init() { register(c17{}) }

func (c17) ID() string    { return "C17" }
func (c17) Level() string { return "exploration" }
func (c17) Rule() string {
	return "two case families under the race detector. (pubsub) a fresh pubsub.PubSub, one document key, 2..4 subscribers and 1..3 " +
		"publishers as goroutines with seeded delays: every subscriber subscribes, consumes as a healthy, slow or STALLED reader " +
		"(stops reading, so the batch publisher parks 100 ms per event on it until it self-prunes), unsubscribes early or late and " +
		"may subscribe again; every publisher publishes DocChanged events singly and in bursts (the per-batch dedup drops the 3rd+ " +
		"of one actor). Every call and every received event gets a tick from one atomic counter. Oracle: for every publish p of " +
		"publisher X (tick at CALL) and every healthy or slow subscription whose Subscribe had RETURNED before and whose " +
		"Unsubscribe STARTS at least 4 s (wall clock, 40 flush windows) after: a DocChanged of X is received on it with a tick " +
		"greater than p's, or its channel is closed by then (coalescing is allowed - a notification must FOLLOW the change, not " +
		"be one per change); after every subscriber unsubscribed, ClientIDs(doc) is empty; a subscriber never receives an event " +
		"whose actor is itself; no panic (a send on a closed channel kills the worker, which the parent reports). (watch) on the " +
		"real server: 2..3 clients attached to one document, one holds a WatchDocument stream (established = initialization " +
		"message read), the others push changes by PushPull with seeded gaps; the stream must deliver a DOCUMENT_CHANGED event " +
		"of the pusher after each push returned (within 5 s), and nothing from the watcher itself. Non-trivial = >=1 judged " +
		"(publish, subscription) pair and >=1 stalled or early-unsubscribing subscriber. The watch family pushes through sync, push-only sync, Detach and Attach; sdk-watch family: real clients in realtime mode, an edit must reach the peers' documents within 5 s without any Sync call. Churn family (every 8th case): on one PubSub the only watcher of a document unsubscribes while the next one subscribes (released together, 8000 rounds per case): ClientIDs must then list exactly the new watcher, and every 400th round a DocChanged is published that the current watcher must receive (or a closed channel)."
}
func (c17) Assumptions() []string {
	return []string{"the delivery bound (4 s / 5 s) is wall clock; it is 40-50 flush windows and is only applied to subscriptions that stay that long after the publish",
		"pubsub.SetDefaultMaxConsecutivePublishFailures(3) so that a stalled reader is pruned after 300 ms instead of 10 s (upstream's own tests do the same)"}
}
func (c17) NumCases(tier string, _ int64) int {
	if tier == "thorough" {
		return 1200
	}
	return 96
}
func (c17) Exhaustive(string) bool { return false }
func (c17) Floors(string) []runner.Floor {
	return []runner.Floor{{Stat: "publish_subscription_pairs_judged", Min: 1500}, {Stat: "events_received", Min: 1500}, {Stat: "stalled_subscriptions", Min: 30}, {Stat: "watch_pushes_judged", Min: 40}, {Stat: "sdk_realtime_deliveries_judged", Min: 30}, {Stat: "churn_rounds_judged", Min: 20000}}
}

type c17Worker struct{ *simWorker }

func (c17) NewWorker(tier string, seed int64) (runner.Worker, error) {
	pubsub.SetDefaultMaxConsecutivePublishFailures(3)
	sw, err := newSimWorker(tier, seed, boot.Options{})
	if err != nil {
		return nil, err
	}
	return &c17Worker{sw}, nil
}

type c17Sub struct {
	name      string
	mode      string // healthy | slow | stalled
	subRet    int64
	unsubAt   int64 // tick at Unsubscribe start
	unsubWall gotime.Time
	closedAt  int64 // tick when the consumer saw the channel closed (0 = not seen)
	mu        sync.Mutex
	recv      map[string][]int64 // publisher actor -> ticks of received DocChanged
	self      int
	total     int
}

type c17Pub struct {
	actor string
	tick  int64
	wall  gotime.Time
}

func (w *c17Worker) runPubSub(res *runner.CaseResult, idx int) {
	rng := caseRng(w.seed^0xc17, idx)
	ps := pubsub.New()
	ctx := context.Background()
	docKey := types.DocRefKey{ProjectID: "000000000000000000000001", DocID: types.ID(fmt.Sprintf("%024x", idx+1))}
	var tick atomic.Int64
	nSub, nPub := 2+rng.Intn(3), 1+rng.Intn(3)
	mkActor := func(i int) time.ActorID {
		a, _ := time.ActorIDFromHex(fmt.Sprintf("%024x", 0xa000+i))
		return a
	}
	var mu sync.Mutex
	var subs []*c17Sub
	var pubs []c17Pub
	var wg sync.WaitGroup
	pubsDone := make(chan struct{})
	var problems []string
	problem := func(s string) {
		mu.Lock()
		if len(problems) < 5 {
			problems = append(problems, s)
		}
		mu.Unlock()
	}
	stalled, early := 0, 0
	for i := 0; i < nSub; i++ {
		i := i
		actor := mkActor(i)
		lr := rand.New(rand.NewSource(w.seed*977 + int64(idx)*31 + int64(i)))
		rounds := 1 + lr.Intn(2)
		// subscriber 0 is always a long-lived healthy one
		wg.Add(1)
		go func() {
			defer wg.Done()
			for r := 0; r < rounds; r++ {
				mode := []string{"healthy", "healthy", "slow", "stalled"}[lr.Intn(4)]
				long := lr.Intn(3) != 0
				if i == 0 {
					mode, long = "healthy", true
				}
				if r == 0 && i != 0 {
					gotime.Sleep(gotime.Duration(lr.Intn(40)) * gotime.Millisecond)
				}
				sub, _, err := ps.Subscribe(ctx, actor, docKey, 0)
				if err != nil {
					problem("Subscribe: " + err.Error())
					return
				}
				s := &c17Sub{name: fmt.Sprintf("s%d.%d", i, r), mode: mode, recv: map[string][]int64{}}
				s.subRet = tick.Add(1)
				mu.Lock()
				subs = append(subs, s)
				if mode == "stalled" {
					stalled++
				}
				if !long {
					early++
				}
				mu.Unlock()
				consumerDone := make(chan struct{})
				stall := gotime.Duration(400+lr.Intn(600)) * gotime.Millisecond
				cr := rand.New(rand.NewSource(lr.Int63())) // the consumer's own generator
				go func() {
					defer close(consumerDone)
					lr := cr
					if mode == "stalled" {
						gotime.Sleep(stall)
					}
					for e := range sub.Events() {
						t := tick.Add(1)
						s.mu.Lock()
						s.total++
						if e.Actor.Compare(actor) == 0 {
							s.self++
						}
						if e.Type == events.DocChanged {
							s.recv[e.Actor.String()] = append(s.recv[e.Actor.String()], t)
						}
						s.mu.Unlock()
						if mode == "slow" {
							gotime.Sleep(gotime.Duration(lr.Intn(8)) * gotime.Millisecond)
						}
					}
					s.mu.Lock()
					s.closedAt = tick.Add(1)
					s.mu.Unlock()
				}()
				if long {
					<-pubsDone
					gotime.Sleep(gotime.Duration(4200+lr.Intn(300)) * gotime.Millisecond)
				} else {
					gotime.Sleep(gotime.Duration(lr.Intn(150)) * gotime.Millisecond)
				}
				s.mu.Lock()
				s.unsubAt = tick.Add(1)
				s.unsubWall = gotime.Now()
				s.mu.Unlock()
				ps.Unsubscribe(ctx, docKey, sub)
				<-consumerDone
			}
		}()
	}
	var pwg sync.WaitGroup
	for j := 0; j < nPub; j++ {
		j := j
		actor := mkActor(100 + j)
		lr := rand.New(rand.NewSource(w.seed*613 + int64(idx)*17 + int64(j)))
		pwg.Add(1)
		go func() {
			defer pwg.Done()
			gotime.Sleep(gotime.Duration(50+lr.Intn(60)) * gotime.Millisecond)
			n := 4 + lr.Intn(10)
			for k := 0; k < n; k++ {
				burst := 1
				if lr.Intn(3) == 0 {
					burst = 3 + lr.Intn(4)
				}
				for b := 0; b < burst; b++ {
					p := c17Pub{actor: actor.String(), tick: tick.Add(1), wall: gotime.Now()}
					ps.Publish(ctx, actor, events.DocEvent{Type: events.DocChanged, Key: docKey, Actor: actor})
					mu.Lock()
					pubs = append(pubs, p)
					mu.Unlock()
				}
				gotime.Sleep(gotime.Duration(lr.Intn(120)) * gotime.Millisecond)
			}
		}()
	}
	pwg.Wait()
	close(pubsDone)
	wg.Wait()
	// leak check
	leak := ps.ClientIDs(docKey)
	for try := 0; try < 20 && len(leak) > 0; try++ {
		gotime.Sleep(50 * gotime.Millisecond)
		leak = ps.ClientIDs(docKey)
	}
	replay := map[string]any{"family": "pubsub", "seed": w.seed, "idx": idx}
	if len(leak) > 0 {
		res.Violate("subscription-leaked", fmt.Sprintf("every subscriber has unsubscribed, ClientIDs() still lists %d subscription(s)", len(leak)), "", replay)
	}
	for _, p := range problems {
		res.Violate("call-failed", p, "", replay)
	}
	judged := 0
	for _, s := range subs {
		res.AddStat("events_received", int64(s.total))
		if s.self > 0 {
			res.Violate("own-event-delivered", fmt.Sprintf("%s received %d event(s) whose actor is itself", s.name, s.self), "", replay)
		}
		if s.mode == "stalled" {
			continue
		}
		for _, p := range pubs {
			if s.subRet > p.tick || s.unsubWall.Sub(p.wall) < 4*gotime.Second {
				continue
			}
			judged++
			ok := false
			for _, t := range s.recv[p.actor] {
				if t > p.tick {
					ok = true
					break
				}
			}
			if !ok && s.closedAt != 0 && s.closedAt < s.unsubAt {
				ok = true // the stream was closed on it (pruned): allowed by the property
			}
			if !ok {
				res.Violate("notification-missing", fmt.Sprintf("subscription %s (%s reader; Subscribe returned at tick %d, Unsubscribe started at tick %d, %.1f s after the publish) never received a DocChanged of %s after that actor's publish at tick %d; it received %v from that actor",
					s.name, s.mode, s.subRet, s.unsubAt, s.unsubWall.Sub(p.wall).Seconds(), p.actor[20:], p.tick, s.recv[p.actor]), "", replay)
				goto done
			}
		}
	}
done:
	res.AddStat("publish_subscription_pairs_judged", int64(judged))
	res.AddStat("publishes", int64(len(pubs)))
	res.AddStat("subscriptions", int64(len(subs)))
	res.AddStat("stalled_subscriptions", int64(stalled))
	res.AddStat("early_unsubscribes", int64(early))
	res.Hash = fmt.Sprintf("pubsub-%d-%d", w.seed, idx)
	res.Nontrivial = judged > 0 && (stalled > 0 || early > 0)
	if idx%23 == 0 {
		b, _ := json.Marshal(map[string]any{"family": "pubsub", "subscribers": nSub, "publishers": nPub, "publishes": len(pubs), "subscriptions": len(subs), "stalled": stalled, "pairs_judged": judged})
		res.Sample = b
	}
}

// ---- end to end ----

func (w *c17Worker) runWatch(res *runner.CaseResult, idx int) {
	rng := caseRng(w.seed^0xc17e, idx)
	proj, err := w.project(0)
	if err != nil {
		res.Inconclusive = err.Error()
		return
	}
	ctx := context.Background()
	dk := key.Key(fmt.Sprintf("c17-%d-%d-%d", w.seed, idx, gotime.Now().UnixNano()%1000000))
	n := 2 + rng.Intn(2)
	var reps []*replica.Replica
	replay := map[string]any{"family": "watch", "seed": w.seed, "idx": idx}
	for i := 0; i < n; i++ {
		r := replica.New(fmt.Sprintf("w%d", i), proj.PublicKey, fmt.Sprintf("c17-%d-%d-%d", w.seed, idx, i), w.env.RPC(proj.PublicKey))
		if err := r.Activate(ctx); err != nil {
			res.Inconclusive = err.Error()
			return
		}
		if err := r.Attach(ctx, dk, replica.AttachOpts{Presence: map[string]string{"n": r.Name}}); err != nil {
			res.Violate("request-failed", "attach: "+err.Error(), "", replay)
			return
		}
		reps = append(reps, r)
	}
	watcher := reps[0]
	wctx, cancel := context.WithCancel(ctx)
	defer cancel()
	req := connect.NewRequest(&api.WatchDocumentRequest{ClientId: watcher.ID.String(), DocumentId: watcher.DocID})
	req.Header().Add(types.ShardKey, proj.PublicKey+"/"+string(dk))
	stream, err := watcher.RPC.WatchDocument(wctx, req)
	if err != nil {
		res.Violate("request-failed", "watch: "+err.Error(), "", replay)
		return
	}
	var tick atomic.Int64
	var mu sync.Mutex
	got := map[string][]int64{} // publisher -> ticks of DOCUMENT_CHANGED
	self := 0
	established := make(chan struct{})
	go func() {
		first := true
		for stream.Receive() {
			m := stream.Msg()
			if first && m.GetInitialization() != nil {
				first = false
				close(established)
				continue
			}
			if e := m.GetEvent(); e != nil {
				t := tick.Add(1)
				mu.Lock()
				if e.Publisher == watcher.ID.String() {
					self++
				}
				if e.Type == api.DocEventType_DOC_EVENT_TYPE_DOCUMENT_CHANGED {
					got[e.Publisher] = append(got[e.Publisher], t)
				}
				mu.Unlock()
			}
		}
		if first {
			close(established)
		}
	}()
	select {
	case <-established:
	case <-gotime.After(10 * gotime.Second):
		res.Inconclusive = "watch stream not established within 10 s"
		return
	}
	pushes := 3 + rng.Intn(5)
	for k := 0; k < pushes; k++ {
		r := reps[1+rng.Intn(n-1)]
		v := fmt.Sprintf("%s-%d", r.Name, k)
		_ = r.Update(func(root *yjson.Object, _ *presence.Presence) error {
			root.SetString(r.Name, v)
			return nil
		})
		// the tick is taken at the CALL: the server publishes while it handles the request,
		// so the notification may overtake the response
		tp := tick.Add(1)
		// every way a change reaches the server: a sync, a push-only sync, inside the
		// Detach request (edit, then detach without a sync in between), and - after the
		// detach - the initial presence inside the next Attach request
		how := []string{"sync", "sync", "sync", "sync", "push-only sync", "push-only sync", "detach", "detach"}[rng.Intn(8)]
		var err error
		switch how {
		case "sync":
			err = r.Sync(ctx, false)
		case "push-only sync":
			err = r.Sync(ctx, true)
		case "detach":
			err = r.Detach(ctx)
		}
		if err != nil {
			res.Violate("request-failed", how+": "+err.Error(), "", replay)
			return
		}
		res.AddSet("watch_push_kinds", how)
		expect := func(what string, tp int64) bool {
			res.AddStat("watch_pushes_judged", 1)
			ok := false
			for try := 0; try < 100 && !ok; try++ {
				mu.Lock()
				for _, t := range got[r.ID.String()] {
					if t > tp {
						ok = true
					}
				}
				mu.Unlock()
				if !ok {
					gotime.Sleep(50 * gotime.Millisecond)
				}
			}
			if !ok {
				res.Violate("watcher-not-notified", fmt.Sprintf("push %d of %s (%s, called at tick %d) was accepted; the watcher's stream delivered no DOCUMENT_CHANGED of that client after the call within 5 s (ticks of that publisher's events: %v)", k, r.Name, what, tp, got[r.ID.String()]), "", replay)
			}
			return ok
		}
		if !expect("an edit pushed by a "+how, tp) {
			return
		}
		if how == "detach" {
			ta := tick.Add(1)
			if err := r.Attach(ctx, dk, replica.AttachOpts{Presence: map[string]string{"n": r.Name}}); err != nil {
				res.Violate("request-failed", "re-attach: "+err.Error(), "", replay)
				return
			}
			res.AddSet("watch_push_kinds", "attach")
			if !expect("the initial presence pushed by an attach", ta) {
				return
			}
		}
		gotime.Sleep(gotime.Duration(rng.Intn(250)) * gotime.Millisecond)
	}
	if self > 0 {
		res.Violate("own-event-delivered", fmt.Sprintf("the watcher received %d event(s) published by itself", self), "", replay)
	}
	cancel()
	for _, r := range reps {
		_ = r.Detach(ctx)
		_ = r.Deactivate(ctx)
	}
	res.Hash = fmt.Sprintf("watch-%d-%d", w.seed, idx)
	res.Nontrivial = true
	if idx%23 == 3 {
		b, _ := json.Marshal(map[string]any{"family": "watch", "clients": n, "pushes": pushes})
		res.Sample = b
	}
}

// runSDKWatch: the whole notification path through the REAL client.Client in realtime mode:
// an edit of one client has to show up in the documents of the others without anybody
// calling Sync (push by the author's sync loop -> DocChanged -> the peers' watch loops ->
// their sync loops pull). Peers' documents are read inside Update callbacks only (the
// document's own lock), never next to their sync loop.
func (w *c17Worker) runSDKWatch(res *runner.CaseResult, idx int) {
	rng := caseRng(w.seed^0xc175d, idx)
	proj, err := w.project(0)
	if err != nil {
		res.Inconclusive = err.Error()
		return
	}
	ctx, cancel := context.WithTimeout(context.Background(), 3*gotime.Minute)
	defer cancel()
	dk := key.Key(fmt.Sprintf("c17sdk-%d-%d-%d", w.seed, idx, gotime.Now().UnixNano()%1000000000))
	replay := map[string]any{"family": "sdk-watch", "seed": w.seed, "idx": idx}
	n := 2 + rng.Intn(2)
	type cl struct {
		c *client.Client
		d *document.Document
	}
	var cs []*cl
	defer func() {
		// no Detach here: the client's watch pump stops with the stream, after which nothing
		// reads Document.Events() (buffer 1); a detach response that carries two presence
		// changes of online peers then blocks ApplyChangePack for ever (observed; outside
		// the properties, see DESIGN A.5). Deactivation detaches on the server side.
		for _, x := range cs {
			_ = x.c.Deactivate(ctx)
			_ = x.c.Close()
		}
	}()
	for i := 0; i < n; i++ {
		c, err := client.Dial(w.env.Addr, client.WithAPIKey(proj.PublicKey), client.WithSyncLoopDuration(20*gotime.Millisecond))
		if err != nil {
			res.Inconclusive = "dial: " + err.Error()
			return
		}
		if err := c.Activate(ctx); err != nil {
			res.Inconclusive = "activate: " + err.Error()
			_ = c.Close()
			return
		}
		d := document.New(dk)
		if err := c.Attach(ctx, d, client.WithRealtimeSync()); err != nil {
			res.Violate("request-failed", "attach (realtime): "+err.Error(), "", replay)
			_ = c.Close()
			return
		}
		cs = append(cs, &cl{c, d})
	}
	read := func(x *cl, k string) string {
		v := ""
		_ = x.d.Update(func(root *yjson.Object, _ *presence.Presence) error {
			if p, ok := root.Get(k).(*crdt.Primitive); ok {
				v = fmt.Sprint(p.Value())
			}
			return nil
		})
		return v
	}
	pushes := 3 + rng.Intn(4)
	for k := 0; k < pushes; k++ {
		ai := rng.Intn(n)
		a := cs[ai]
		field, val := fmt.Sprintf("c%d", ai), fmt.Sprintf("c%d-%d", ai, k)
		if err := a.d.Update(func(root *yjson.Object, _ *presence.Presence) error {
			root.SetString(field, val)
			return nil
		}); err != nil {
			res.Violate("request-failed", "update: "+err.Error(), "", replay)
			return
		}
		for pi, p := range cs {
			if pi == ai {
				continue
			}
			res.AddStat("sdk_realtime_deliveries_judged", 1)
			ok := false
			for try := 0; try < 100 && !ok; try++ {
				if ok = read(p, field) == val; !ok {
					gotime.Sleep(50 * gotime.Millisecond)
				}
			}
			if !ok {
				res.Violate("realtime-peer-not-updated", fmt.Sprintf("edit %d (%s=%q by client %d in realtime mode) did not reach client %d within 5 s although nobody is offline; it shows %q", k, field, val, ai, pi, read(p, field)), "", replay)
				return
			}
		}
		gotime.Sleep(gotime.Duration(rng.Intn(120)) * gotime.Millisecond)
	}
	res.Hash = fmt.Sprintf("sdk-watch-%d-%d", w.seed, idx)
	res.Nontrivial = true
}

func (w *c17Worker) Run(idx int) runner.CaseResult {
	res := runner.CaseResult{Case: fmt.Sprintf("c17-%d", idx)}
	switch {
	case idx%8 == 1:
		w.runChurn(&res, idx)
	case idx%8 == 5:
		w.runSDKWatch(&res, idx)
	case idx%4 == 3:
		w.runWatch(&res, idx)
	default:
		w.runPubSub(&res, idx)
	}
	return res
}

func (w *c17Worker) Replay(data json.RawMessage) runner.CaseResult {
	res := runner.CaseResult{Case: "replay"}
	var rp struct {
		Family string `json:"family"`
		Seed   int64  `json:"seed"`
		Idx    int    `json:"idx"`
	}
	_ = json.Unmarshal(data, &rp)
	old := w.seed
	w.seed = rp.Seed
	defer func() { w.seed = old }()
	if rp.Family == "churn" {
		w.runChurn(&res, rp.Idx)
	} else if rp.Family == "sdk-watch" {
		w.runSDKWatch(&res, rp.Idx)
	} else if rp.Family == "watch" {
		w.runWatch(&res, rp.Idx)
	} else {
		w.runPubSub(&res, rp.Idx)
	}
	return res
}
