package props

import (
	"context"
	"fmt"

	"connectrpc.com/connect"

	api "github.com/yorkie-team/yorkie/api/yorkie/v1"
	"github.com/yorkie-team/yorkie/pkg/document"
	yjson "github.com/yorkie-team/yorkie/pkg/document/json"
	"github.com/yorkie-team/yorkie/pkg/key"
	"github.com/yorkie-team/yorkie/pkg/document/presence"
	"github.com/yorkie-team/yorkie/pkg/document/yson"

	"verif/internal/boot"
	"verif/internal/gen"
	"verif/internal/replica"
	"verif/internal/runner"
	"verif/internal/sim"
)

// revision family of C18: "revision restore returns the content present at revision
// creation", on the live server through the CreateRevision / GetRevision /
// RestoreRevision procedures.

// canonOfYSON imports a YSON text into an empty document and returns its canonical content.
func canonOfYSON(s string) (out string, err error) {
	defer func() {
		if r := recover(); r != nil {
			err = fmt.Errorf("panic: %v", r)
		}
	}()
	var obj yson.Object
	if err := yson.Unmarshal(s, &obj); err != nil {
		return "", err
	}
	d := document.New(key.Key("c18-rev-import"))
	if err := d.Update(func(r *yjson.Object, _ *presence.Presence) error {
		r.SetYSON(obj)
		return nil
	}); err != nil {
		return "", err
	}
	return canonDoc(d), nil
}

type revPoint struct {
	id      string
	content string
	snap    string
}

func (w *c18Worker) server() (*simWorker, error) {
	if w.sw != nil {
		return w.sw, nil
	}
	sw, err := newSimWorker(w.tier, w.seed, boot.Options{})
	if err != nil {
		return nil, err
	}
	w.sw = sw
	return sw, nil
}

func (w *c18Worker) runRevision(res *runner.CaseResult, idx int, pinned *sim.History) {
	sw, err := w.server()
	if err != nil {
		res.Inconclusive = err.Error()
		return
	}
	rng := caseRng(w.seed^0xc18e, idx)
	g := sim.GenCfg{
		N: 2 + rng.Intn(2), MaxReps: 4, Steps: 8 + rng.Intn(25), Profile: gen.DefaultProfile(),
		SplitSyncPct: 4, PushOnlyPct: 4, DetachPct: 1, QuiescePct: 3, MultiEditPct: 10, EditPct: 62,
	}
	var vet Vetoed
	g.Guard = makeGuard(Guards{ArrSetMoved: true, InsertBeforeTombstone: true}, &vet)
	g.Profile.NoDedup = true // fence of recorded finding F-DEDUP-HLL-OPS
	if rng.Intn(2) == 0 {
		g.Profile.Unicode = true
	}
	cfg := sim.WorldCfg{Snap: []int64{0, 3, 5}[rng.Intn(3)]}
	if pinned != nil {
		cfg = pinned.Cfg
	}
	proj, err := sw.project(cfg.Snap)
	if err != nil {
		res.Inconclusive = err.Error()
		return
	}
	world := sim.NewWorld(sw.env, proj, cfg, fmt.Sprintf("c18r-%d", idx))
	world.OnQuiesce = func(*sim.World, []*replica.Replica) {}
	var h sim.History
	if pinned != nil {
		h = *pinned
		world.RunHistory(h)
	} else {
		h = world.RunGenerated(caseRng(w.seed, idx), g)
	}
	res.Hash = runner.HashOf(h.Steps)
	editors, applied := historyStats(res, world, h)
	if len(world.Fail) > 0 {
		res.AddStat("history_failed_not_judged_here", 1)
		return
	}
	replay := map[string]any{"family": "revision", "seed": w.seed, "idx": idx, "h": h}
	viol := func(kind, detail string) { res.Violate(kind, detail, "", replay) }
	ctx := context.Background()
	rpc := sw.env.RPC(proj.PublicKey)

	agreed := func(what string) (string, bool) {
		if !world.Quiesce() {
			if len(world.Fail) > 0 {
				viol("revision-sync-failed", what+": "+world.Fail[0].Detail)
			}
			return "", false
		}
		att := world.Attached()
		if len(att) == 0 {
			return "", false
		}
		c := canonDoc(att[0].Doc)
		for _, r := range att[1:] {
			if got := canonDoc(r.Doc); got != c {
				viol("revision-replicas-differ", fmt.Sprintf("%s: %s holds\n  %s\n%s holds\n  %s", what, att[0].Name, trunc400(c), r.Name, trunc400(got)))
				return "", false
			}
		}
		return c, true
	}
	create := func(label string) (*revPoint, bool) {
		content, ok := agreed("before CreateRevision " + label)
		if !ok {
			return nil, false
		}
		att := world.Attached()
		r := att[rng.Intn(len(att))]
		resp, err := rpc.CreateRevision(ctx, connect.NewRequest(&api.CreateRevisionRequest{
			ClientId: r.ID.String(), DocumentId: r.DocID, Label: label, Description: "d-" + label}))
		if err != nil {
			viol("revision-create-failed", fmt.Sprintf("CreateRevision on a reachable document failed: %v\ncontent: %s", err, trunc400(content)))
			return nil, false
		}
		res.AddStat("revisions_created", 1)
		rp := &revPoint{id: resp.Msg.Revision.Id, content: content, snap: resp.Msg.Revision.Snapshot}
		if rp.snap != "" {
			got, err := canonOfYSON(rp.snap)
			if err != nil {
				viol("revision-snapshot-unreadable", fmt.Sprintf("the snapshot CreateRevision answered cannot be imported: %v\nsnapshot: %s", err, trunc400(rp.snap)))
				return nil, false
			}
			if got != content {
				viol("revision-snapshot-differs", fmt.Sprintf("content of the created revision differs from what every synced client shows\n got  %s\n want %s", trunc400(got), trunc400(content)))
				return nil, false
			}
			res.AddStat("revision_snapshots_compared", 1)
		}
		return rp, true
	}
	get := func(rp *revPoint, when string) bool {
		att := world.Attached()
		r := att[0]
		resp, err := rpc.GetRevision(ctx, connect.NewRequest(&api.GetRevisionRequest{ClientId: r.ID.String(), DocumentId: r.DocID, RevisionId: rp.id}))
		if err != nil {
			viol("revision-get-failed", fmt.Sprintf("GetRevision %s: %v", when, err))
			return false
		}
		got, err := canonOfYSON(resp.Msg.Revision.Snapshot)
		if err != nil || got != rp.content {
			viol("revision-snapshot-differs", fmt.Sprintf("GetRevision %s: stored snapshot no longer holds the content at creation (err=%v)\n got  %s\n want %s", when, err, trunc400(got), trunc400(rp.content)))
			return false
		}
		res.AddStat("revision_snapshots_compared", 1)
		return true
	}
	edits := func(n int) {
		for k := 0; k < n; k++ {
			att := world.Attached()
			if len(att) == 0 {
				return
			}
			ri := rng.Intn(len(world.Reps))
			r := world.Reps[ri]
			if r.Doc == nil || r.Doc.Status() != document.StatusAttached {
				continue
			}
			conts := gen.Scan(r.Doc.Root().Object, 3)
			e := g.Profile.Next(rng, conts, r.Name)
			if !g.Guard(world, ri, &e) {
				continue
			}
			world.Exec(sim.Step{T: "edit", R: ri, E: []gen.Edit{e}})
			if rng.Intn(3) == 0 {
				world.Exec(sim.Step{T: "sync", R: ri})
			}
		}
	}
	restore := func(rp *revPoint, what string) bool {
		att := world.Attached()
		r := att[rng.Intn(len(att))]
		_, err := rpc.RestoreRevision(ctx, connect.NewRequest(&api.RestoreRevisionRequest{ClientId: r.ID.String(), DocumentId: r.DocID, RevisionId: rp.id}))
		sw.env.WaitIdle()
		if err != nil {
			viol("revision-restore-failed", fmt.Sprintf("%s: RestoreRevision failed: %v\nrevision content: %s", what, err, trunc400(rp.content)))
			return false
		}
		res.AddStat("revisions_restored", 1)
		got, ok := agreed("after " + what)
		if !ok {
			return false
		}
		if got != rp.content {
			viol("revision-restore-differs", fmt.Sprintf("%s: synced clients do not show the content present at revision creation\n got  %s\n want %s", what, trunc400(got), trunc400(rp.content)))
			return false
		}
		// a client that attaches afterwards
		n := len(world.Reps)
		world.Exec(sim.Step{T: "attach", R: n})
		if len(world.Fail) > 0 {
			viol("revision-sync-failed", what+": fresh attach: "+world.Fail[0].Detail)
			return false
		}
		if got := canonDoc(world.Reps[n].Doc); got != rp.content {
			viol("revision-restore-differs", fmt.Sprintf("%s: a client attaching after the restore\n got  %s\n want %s", what, trunc400(got), trunc400(rp.content)))
			return false
		}
		res.AddStat("restores_compared_on_fresh_attach", 1)
		return true
	}

	if len(world.Attached()) == 0 {
		return
	}
	rev1, ok := create("one")
	if !ok {
		return
	}
	edits(3 + rng.Intn(10))
	if len(world.Fail) > 0 {
		res.AddStat("history_failed_not_judged_here", 1)
		return
	}
	var rev2 *revPoint
	if rng.Intn(2) == 0 {
		if rev2, ok = create("two"); !ok {
			return
		}
		edits(1 + rng.Intn(6))
	}
	if _, ok := agreed("before the restore"); !ok {
		return
	}
	if !restore(rev1, "restore of the first revision") {
		return
	}
	// life goes on: edits on top of the restored content, by old and new clients
	edits(3 + rng.Intn(8))
	if _, ok := agreed("edits after the restore"); !ok {
		return
	}
	if rev2 != nil {
		if !restore(rev2, "restore of the second revision") {
			return
		}
		if rng.Intn(2) == 0 && !restore(rev1, "second restore of the first revision") {
			return
		}
	}
	if !get(rev1, "at the end") {
		return
	}
	if len(world.Fail) > 0 {
		viol("revision-sync-failed", world.Fail[0].Detail)
		return
	}
	res.Nontrivial = editors >= 1 && applied >= 4
	if idx%199 == 0 {
		res.Sample = sampleOf(h, map[string]any{"family": "revision", "revision_content": trunc400(rev1.content)})
	}
}
