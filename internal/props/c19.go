package props

import (
	"encoding/json"
	"fmt"

	"github.com/yorkie-team/yorkie/api/converter"
	"github.com/yorkie-team/yorkie/pkg/document"
	"github.com/yorkie-team/yorkie/pkg/document/change"
	yjson "github.com/yorkie-team/yorkie/pkg/document/json"
	"github.com/yorkie-team/yorkie/pkg/document/presence"
	"github.com/yorkie-team/yorkie/pkg/key"

	"verif/internal/runner"
)

type c19 struct{}

func init() { register(c19{}) }

func (c19) ID() string    { return "C19" }
func (c19) Level() string { return "exploration" }
func (c19) Rule() string {
	return "the five operation x range matrices of upstream's test/complex/tree_concurrency_test.go (edit-edit 9x10x10, split-split " +
		"5x8x8, split-edit 9x2x8, style-style 4x6x6, edit-style 7x6x2 = 1592 pairs; that file needs MongoDB and build tags and " +
		"t.Skip()s a diverging pair) are ported literally and enumerated completely, each pair in BOTH orders in which the two " +
		"changes can reach the log with BOTH assignments of the greater actor id, and with the initial tree written by the first editor or by a third client (8 cases per pair). Per case: two Documents start from the matrix's initial tree, each applies its operation " +
		"concurrently, the changes cross the wire codec in log order; a third, passive replica is built the way the server builds " +
		"one - the log replayed into an internal document, encoded with SnapshotToBytes and decoded - a fourth applies the log " +
		"change by change, and a fifth loads a snapshot taken BETWEEN the two changes and then applies the second one. Oracle: no Update or apply fails or panics; ToXML() of both editors, of the snapshot-fed and of the " +
		"change-fed replica are identical; Root() (the copy shown to users) marshals exactly like the document on every replica. " +
		"A pair that fails is reported under its name (matrix/range(op1,op2)/order)."
}
func (c19) Assumptions() []string {
	return []string{"in-process exchange through the protobuf codec instead of the RPC server (no MongoDB needed)", "one operation per client, as in upstream's matrices"}
}
func (c19) NumCases(string, int64) int { return len(c19Pairs()) * 8 }
func (c19) Exhaustive(string) bool     { return true }
func (c19) Floors(string) []runner.Floor {
	return []runner.Floor{{Stat: "pairs_run", Min: 12000}, {Stat: "replicas_compared", Min: 40000}}
}

type c19Worker struct{}

func (c19) NewWorker(string, int64) (runner.Worker, error) { return &c19Worker{}, nil }
func (w *c19Worker) Close()                                {}

// ---- literal port of upstream's matrix vocabulary ----

type c19Sel int

const (
	selFront c19Sel = iota + 1
	selMiddle
	selBack
	selAll
	selOneQuarter
	selThreeQuarter
)

type c19Range struct{ from, mid, to int }
type c19TwoRanges struct {
	r    [2]c19Range
	desc string
}

func c19Two(f1, m1, t1, f2, m2, t2 int, desc string) c19TwoRanges {
	return c19TwoRanges{[2]c19Range{{f1, m1, t1}, {f2, m2, t2}}, desc}
}

func (tr c19TwoRanges) get(sel c19Sel, user int) (int, int) {
	r := tr.r[user]
	switch sel {
	case selFront:
		return r.from, r.from
	case selMiddle:
		return r.mid, r.mid
	case selBack:
		return r.to, r.to
	case selAll:
		return r.from, r.to
	case selOneQuarter:
		p := (r.from + r.mid + 1) / 2
		return p, p
	case selThreeQuarter:
		p := (r.mid + r.to) / 2
		return p, p
	}
	return -1, -1
}

func c19ParseXML(s string) []string {
	var res []string
	for i := 0; i < len(s); i++ {
		cur := ""
		if s[i] == '<' {
			for i < len(s) && s[i] != '>' {
				cur += string(s[i])
				i++
			}
			cur += string(s[i])
		} else {
			cur += string(s[i])
		}
		res = append(res, cur)
	}
	return res
}

func c19MergeRange(xml string, from, to int) (int, int) {
	content := c19ParseXML(xml)
	st, ed := -1, -1
	for i := from + 1; i <= to && i < len(content); i++ {
		if st == -1 && len(content[i]) >= 2 && content[i][0] == '<' && content[i][1] == '/' {
			st = i - 1
		}
		if len(content[i]) >= 2 && content[i][0] == '<' && content[i][1] != '/' {
			ed = i
		}
	}
	return st, ed
}

type c19Op struct {
	kind       string // edit | merge | split | style | rmstyle
	sel        c19Sel
	content    *yjson.TreeNode
	splitLevel int
	key, value string
	desc       string
}

func (op c19Op) run(d *document.Document, user int, tr c19TwoRanges) (err error) {
	defer func() {
		if x := recover(); x != nil {
			err = fmt.Errorf("PANIC: %v", x)
		}
	}()
	from, to := tr.get(op.sel, user)
	return d.Update(func(root *yjson.Object, _ *presence.Presence) error {
		t := root.GetTree("t")
		switch op.kind {
		case "edit":
			t.Edit(from, to, op.content, op.splitLevel)
		case "merge":
			f, e := c19MergeRange(t.ToXML(), from, to)
			if f != -1 && e != -1 && f < e {
				t.Edit(f, e, op.content, op.splitLevel)
			}
		case "split":
			t.Edit(from, to, op.content, op.splitLevel)
		case "style":
			t.Style(from, to, map[string]string{op.key: op.value})
		case "rmstyle":
			t.RemoveStyle(from, to, []string{op.key})
		}
		return nil
	})
}

type c19Matrix struct {
	name    string
	initial yjson.TreeNode
	xml     string
	ranges  []c19TwoRanges
	ops1    []c19Op
	ops2    []c19Op
}

func txt(v string) yjson.TreeNode { return yjson.TreeNode{Type: "text", Value: v} }
func el(t string, attrs map[string]string, kids ...yjson.TreeNode) yjson.TreeNode {
	if kids == nil {
		kids = []yjson.TreeNode{}
	}
	return yjson.TreeNode{Type: t, Attributes: attrs, Children: kids}
}

func c19Matrices() []c19Matrix {
	var ms []c19Matrix
	// edit-edit
	{
		t1, t2 := txt("A"), txt("B")
		e1, e2 := el("b", nil), el("i", nil)
		mk := func(t, e *yjson.TreeNode) []c19Op {
			return []c19Op{
				{kind: "edit", sel: selFront, content: t, desc: "insertTextFront"},
				{kind: "edit", sel: selMiddle, content: t, desc: "insertTextMiddle"},
				{kind: "edit", sel: selBack, content: t, desc: "insertTextBack"},
				{kind: "edit", sel: selAll, content: t, desc: "replaceText"},
				{kind: "edit", sel: selFront, content: e, desc: "insertElementFront"},
				{kind: "edit", sel: selMiddle, content: e, desc: "insertElementMiddle"},
				{kind: "edit", sel: selBack, content: e, desc: "insertElementBack"},
				{kind: "edit", sel: selAll, content: e, desc: "replaceElement"},
				{kind: "edit", sel: selAll, desc: "delete"},
				{kind: "merge", sel: selAll, desc: "merge"},
			}
		}
		ms = append(ms, c19Matrix{
			name:    "edit-edit",
			initial: el("root", nil, el("p", nil, txt("abc")), el("p", nil, txt("def")), el("p", nil, txt("ghi"))),
			xml:     `<root><p>abc</p><p>def</p><p>ghi</p></root>`,
			ranges: []c19TwoRanges{
				c19Two(0, 5, 10, 5, 10, 15, "intersect-element"),
				c19Two(1, 2, 3, 2, 3, 4, "intersect-text"),
				c19Two(0, 5, 15, 5, 5, 10, "contain-element"),
				c19Two(1, 2, 4, 2, 2, 3, "contain-text"),
				c19Two(0, 5, 15, 6, 7, 9, "contain-mixed-type"),
				c19Two(0, 5, 5, 5, 5, 10, "side-by-side-element"),
				c19Two(1, 1, 2, 2, 3, 4, "side-by-side-text"),
				c19Two(0, 5, 10, 0, 5, 10, "equal-element"),
				c19Two(1, 2, 4, 1, 2, 4, "equal-text"),
			},
			ops1: mk(&t1, &e1), ops2: mk(&t2, &e2),
		})
	}
	// split-split
	{
		splits := []c19Op{
			{kind: "split", sel: selFront, splitLevel: 1, desc: "split-front-1"},
			{kind: "split", sel: selOneQuarter, splitLevel: 1, desc: "split-one-quarter-1"},
			{kind: "split", sel: selThreeQuarter, splitLevel: 1, desc: "split-three-quarter-1"},
			{kind: "split", sel: selBack, splitLevel: 1, desc: "split-back-1"},
			{kind: "split", sel: selFront, splitLevel: 2, desc: "split-front-2"},
			{kind: "split", sel: selOneQuarter, splitLevel: 2, desc: "split-one-quarter-2"},
			{kind: "split", sel: selThreeQuarter, splitLevel: 2, desc: "split-three-quarter-2"},
			{kind: "split", sel: selBack, splitLevel: 2, desc: "split-back-2"},
		}
		ms = append(ms, c19Matrix{
			name: "split-split",
			initial: el("root", nil, el("p", nil, el("p", nil,
				el("p", nil, el("p", nil, txt("abcd")), el("p", nil, txt("efgh"))),
				el("p", nil, txt("ijkl"))))),
			xml: `<root><p><p><p><p>abcd</p><p>efgh</p></p><p>ijkl</p></p></p></root>`,
			ranges: []c19TwoRanges{
				c19Two(3, 6, 9, 3, 6, 9, "equal-single"),
				c19Two(3, 9, 15, 3, 9, 15, "equal-multiple"),
				c19Two(3, 9, 15, 9, 12, 15, "A contains B same level"),
				c19Two(2, 16, 22, 9, 12, 15, "A contains B multiple level"),
				c19Two(3, 6, 9, 9, 12, 15, "B is next to A"),
			},
			ops1: splits, ops2: splits,
		})
	}
	// split-edit
	{
		it := map[string]string{"italic": "true"}
		content := el("i", nil)
		ms = append(ms, c19Matrix{
			name: "split-edit",
			initial: el("root", nil, el("p", nil,
				el("p", it, el("p", it, txt("abcd")), el("p", it, txt("efgh"))),
				el("p", it, txt("ijkl")))),
			xml: `<root><p><p italic="true"><p italic="true">abcd</p><p italic="true">efgh</p></p><p italic="true">ijkl</p></p></root>`,
			ranges: []c19TwoRanges{
				c19Two(2, 5, 8, 2, 5, 8, "equal"),
				c19Two(2, 5, 8, 4, 5, 6, "A contains B"),
				c19Two(2, 5, 8, 2, 8, 14, "B contains A"),
				c19Two(2, 5, 8, 3, 4, 5, "left node(text)"),
				c19Two(2, 5, 8, 5, 6, 7, "right node(text)"),
				c19Two(2, 8, 14, 2, 5, 8, "left node(element)"),
				c19Two(2, 8, 14, 8, 11, 14, "right node(element)"),
				c19Two(2, 5, 8, 8, 11, 14, "A -> B"),
				c19Two(8, 11, 14, 2, 5, 8, "B -> A"),
			},
			ops1: []c19Op{
				{kind: "split", sel: selMiddle, splitLevel: 1, desc: "split-1"},
				{kind: "split", sel: selMiddle, splitLevel: 2, desc: "split-2"},
			},
			ops2: []c19Op{
				{kind: "edit", sel: selFront, content: &content, desc: "insertFront"},
				{kind: "edit", sel: selMiddle, content: &content, desc: "insertMiddle"},
				{kind: "edit", sel: selBack, content: &content, desc: "insertBack"},
				{kind: "edit", sel: selAll, content: &content, desc: "replace"},
				{kind: "edit", sel: selAll, desc: "delete"},
				{kind: "merge", sel: selAll, desc: "merge"},
				{kind: "style", sel: selAll, key: "bold", value: "aa", desc: "style"},
				{kind: "rmstyle", sel: selAll, key: "italic", desc: "remove-style"},
			},
		})
	}
	// style-style
	{
		styles := []c19Op{
			{kind: "rmstyle", sel: selAll, key: "bold", desc: "remove-bold"},
			{kind: "style", sel: selAll, key: "bold", value: "aa", desc: "set-bold-aa"},
			{kind: "style", sel: selAll, key: "bold", value: "bb", desc: "set-bold-bb"},
			{kind: "rmstyle", sel: selAll, key: "italic", desc: "remove-italic"},
			{kind: "style", sel: selAll, key: "italic", value: "aa", desc: "set-italic-aa"},
			{kind: "style", sel: selAll, key: "italic", value: "bb", desc: "set-italic-bb"},
		}
		ms = append(ms, c19Matrix{
			name:    "style-style",
			initial: el("root", nil, el("p", nil, txt("a")), el("p", nil, txt("b")), el("p", nil, txt("c"))),
			xml:     `<root><p>a</p><p>b</p><p>c</p></root>`,
			ranges: []c19TwoRanges{
				c19Two(3, -1, 6, 3, -1, 6, "equal"),
				c19Two(0, -1, 9, 3, -1, 6, "contain"),
				c19Two(0, -1, 6, 3, -1, 9, "intersect"),
				c19Two(0, -1, 3, 3, -1, 6, "side-by-side"),
			},
			ops1: styles, ops2: styles,
		})
	}
	// edit-style
	{
		red := map[string]string{"color": "red"}
		content := el("p", map[string]string{"italic": "true", "color": "blue"}, txt("d"))
		ms = append(ms, c19Matrix{
			name:    "edit-style",
			initial: el("root", nil, el("p", red, txt("a")), el("p", red, txt("b")), el("p", red, txt("c"))),
			xml:     `<root><p color="red">a</p><p color="red">b</p><p color="red">c</p></root>`,
			ranges: []c19TwoRanges{
				c19Two(3, 3, 6, 3, -1, 6, "equal"),
				c19Two(0, 3, 9, 0, 3, 9, "equal multiple"),
				c19Two(0, 3, 9, 3, -1, 6, "A contains B"),
				c19Two(3, 3, 6, 0, -1, 9, "B contains A"),
				c19Two(0, 3, 6, 3, -1, 9, "intersect"),
				c19Two(0, 3, 3, 3, -1, 6, "A -> B"),
				c19Two(3, 3, 6, 0, -1, 3, "B -> A"),
			},
			ops1: []c19Op{
				{kind: "edit", sel: selFront, content: &content, desc: "insertFront"},
				{kind: "edit", sel: selMiddle, content: &content, desc: "insertMiddle"},
				{kind: "edit", sel: selBack, content: &content, desc: "insertBack"},
				{kind: "edit", sel: selAll, desc: "delete"},
				{kind: "edit", sel: selAll, content: &content, desc: "replace"},
				{kind: "merge", sel: selAll, desc: "merge"},
			},
			ops2: []c19Op{
				{kind: "rmstyle", sel: selAll, key: "color", desc: "remove-color"},
				{kind: "style", sel: selAll, key: "bold", value: "aa", desc: "set-bold-aa"},
			},
		})
	}
	return ms
}

type c19Pair struct {
	m        *c19Matrix
	r        c19TwoRanges
	op1, op2 c19Op
}

func (p c19Pair) name() string {
	return fmt.Sprintf("%s/%s(%s,%s)", p.m.name, p.r.desc, p.op1.desc, p.op2.desc)
}

var c19PairsCache []c19Pair

func c19Pairs() []c19Pair {
	if c19PairsCache != nil {
		return c19PairsCache
	}
	ms := c19Matrices()
	for i := range ms {
		m := &ms[i]
		for _, r := range m.ranges {
			for _, o1 := range m.ops1 {
				for _, o2 := range m.ops2 {
					c19PairsCache = append(c19PairsCache, c19Pair{m, r, o1, o2})
				}
			}
		}
	}
	return c19PairsCache
}

func c19XML(d *document.Document) (s string) {
	defer func() {
		if x := recover(); x != nil {
			s = fmt.Sprintf("PANIC in ToXML: %v", x)
		}
	}()
	return d.Root().GetTree("t").ToXML()
}

func c19Apply(d *document.Document, cs []*change.Change, seq int64) (err error) {
	defer func() {
		if x := recover(); x != nil {
			err = fmt.Errorf("PANIC: %v", x)
		}
	}()
	return d.ApplyChangePack(change.NewPack(d.Key(), d.Checkpoint().NextServerSeq(seq), cs, nil, nil))
}

func (w *c19Worker) runPair(res *runner.CaseResult, p c19Pair, order int) {
	// order: bit 0 = whose change reaches the log first, bit 1 = which editor has the greater actor id
	swap := order&2 != 0
	third := order&4 != 0 // the initial tree was written by a third client, not by an editor
	name := fmt.Sprintf("%s/%s-first/%s/%s", p.name(), []string{"op1", "op2"}[order&1], map[bool]string{false: "op1-has-smaller-actor-id", true: "op1-has-greater-actor-id"}[swap],
		map[bool]string{false: "tree-written-by-op1's-client", true: "tree-written-by-a-third-client"}[third])
	replay := map[string]any{"pair": p.name(), "order": order}
	viol := func(kind, detail string) {
		res.Violate(kind, name+": "+detail, "pair:"+name, replay)
	}
	k := key.Key("c19-doc")
	d1, d2 := document.New(k), document.New(k)
	d1.SetActor(actorA)
	d2.SetActor(actorB)
	if swap {
		d1.SetActor(actorB)
		d2.SetActor(actorA)
	}
	d1.SetStatus(document.StatusAttached)
	d2.SetStatus(document.StatusAttached)
	author := d1
	if third {
		author = document.New(k)
		author.SetActor(c15Actors[2])
		author.SetStatus(document.StatusAttached)
	}
	if err := author.Update(func(root *yjson.Object, _ *presence.Presence) error {
		root.SetNewTree("t", p.m.initial)
		return nil
	}); err != nil {
		viol("setup-failed", err.Error())
		return
	}
	var log [][]byte
	push := func(d *document.Document) ([]*change.Change, error) {
		pack := d.CreateChangePack()
		if len(pack.Changes) == 0 {
			return nil, nil
		}
		cs, raw, err := viaWire(pack.Changes, k)
		if err != nil {
			return nil, err
		}
		log = append(log, raw)
		_ = d.ApplyChangePack(change.NewPack(k, change.NewCheckpoint(int64(len(log)), pack.Checkpoint.ClientSeq), nil, nil, nil))
		return cs, nil
	}
	base, err := push(author)
	if err != nil {
		viol("setup-failed", err.Error())
		return
	}
	if err := c19Apply(d2, base, 1); err != nil {
		viol("setup-failed", err.Error())
		return
	}
	if third {
		again, _, _ := reDecode(log[0])
		if err := c19Apply(d1, again, 1); err != nil {
			viol("setup-failed", err.Error())
			return
		}
	}
	if x := c19XML(d1); x != p.m.xml || c19XML(d2) != p.m.xml {
		viol("setup-failed", fmt.Sprintf("initial tree is %s, upstream's matrix says %s", x, p.m.xml))
		return
	}
	if err := p.op1.run(d1, 0, p.r); err != nil {
		viol("operation-failed", fmt.Sprintf("A's %s failed: %v", p.op1.desc, err))
		return
	}
	if err := p.op2.run(d2, 1, p.r); err != nil {
		viol("operation-failed", fmt.Sprintf("B's %s failed: %v", p.op2.desc, err))
		return
	}
	res.AddStat("pairs_run", 1)
	first, second := d1, d2
	if order&1 == 1 {
		first, second = d2, d1
	}
	c1, err := push(first)
	if err != nil {
		viol("change-not-encodable", err.Error())
		return
	}
	c2, err := push(second)
	if err != nil {
		viol("change-not-encodable", err.Error())
		return
	}
	if err := c19Apply(second, c1, int64(len(log))); err != nil {
		viol("sync-failed", fmt.Sprintf("the second pusher cannot apply the first one's change: %v", err))
		return
	}
	if err := c19Apply(first, c2, int64(len(log))); err != nil {
		viol("sync-failed", fmt.Sprintf("the first pusher cannot apply the second one's change: %v", err))
		return
	}
	x1, x2 := c19XML(d1), c19XML(d2)
	res.AddStat("replicas_compared", 2)
	if x1 != x2 {
		viol("editors-diverged", fmt.Sprintf("\n A: %s\n B: %s", x1, x2))
		return
	}
	for n, d := range map[string]*document.Document{"A": d1, "B": d2} {
		if a, b := d.Root().Marshal(), d.Marshal(); a != b {
			viol("clone-differs-from-root", fmt.Sprintf("on %s Root() shows %s, the document is %s", n, a, b))
			return
		}
	}
	// change-fed passive replica (the server's replay) and snapshot-fed one
	feed := func() (*document.Document, error) {
		d := document.New(k)
		d.SetStatus(document.StatusAttached)
		for i, raw := range log {
			cs, _, err := reDecode(raw)
			if err != nil {
				return nil, err
			}
			if err := c19Apply(d, cs, int64(i+1)); err != nil {
				return nil, err
			}
		}
		return d, nil
	}
	d3, err := feed()
	if err != nil {
		viol("log-not-replayable", err.Error())
		return
	}
	res.AddStat("replicas_compared", 1)
	if x3 := c19XML(d3); x3 != x1 {
		viol("change-fed-replica-differs", fmt.Sprintf("\n editors: %s\n replica fed by the log: %s", x1, x3))
		return
	}
	var d4 *document.Document
	if err := func() (err error) {
		defer func() {
			if x := recover(); x != nil {
				err = fmt.Errorf("PANIC: %v", x)
			}
		}()
		b, err := converter.SnapshotToBytes(d3.RootObject(), d3.AllPresences())
		if err != nil {
			return err
		}
		idoc, err := document.NewInternalDocumentFromSnapshot(k, int64(len(log)), d3.InternalDocument().Lamport(), d3.VersionVector(), b)
		if err != nil {
			return err
		}
		d4 = idoc.ToDocument()
		return nil
	}(); err != nil {
		viol("snapshot-failed", err.Error())
		return
	}
	res.AddStat("replicas_compared", 1)
	if x4 := c19XML(d4); x4 != x1 {
		viol("snapshot-fed-replica-differs", fmt.Sprintf("\n editors: %s\n replica fed by the snapshot: %s", x1, x4))
		return
	}
	// a passive replica that loads a snapshot taken BETWEEN the two changes and then
	// receives the second one (the decoded tree must behave like the original under it)
	if len(log) < 3 {
		// one of the two operations was a no-op (upstream's merge selector found no boundary)
		res.AddStat("pairs_with_a_no_op_side", 1)
		res.AddSet("matrices", p.m.name)
		return
	}
	var d5 *document.Document
	if err := func() (err error) {
		defer func() {
			if x := recover(); x != nil {
				err = fmt.Errorf("PANIC: %v", x)
			}
		}()
		mid := document.New(k)
		mid.SetStatus(document.StatusAttached)
		for i := 0; i < 2; i++ { // base + the first pusher's change
			cs, _, err := reDecode(log[i])
			if err != nil {
				return err
			}
			if err := c19Apply(mid, cs, int64(i+1)); err != nil {
				return err
			}
		}
		b, err := converter.SnapshotToBytes(mid.RootObject(), mid.AllPresences())
		if err != nil {
			return err
		}
		idoc, err := document.NewInternalDocumentFromSnapshot(k, 2, mid.InternalDocument().Lamport(), mid.VersionVector(), b)
		if err != nil {
			return err
		}
		d5 = idoc.ToDocument()
		d5.SetStatus(document.StatusAttached)
		cs, _, err := reDecode(log[2])
		if err != nil {
			return err
		}
		return c19Apply(d5, cs, 3)
	}(); err != nil {
		viol("mid-snapshot-replica-failed", err.Error())
		return
	}
	res.AddStat("replicas_compared", 1)
	if x5 := c19XML(d5); x5 != x1 {
		viol("mid-snapshot-replica-differs", fmt.Sprintf("\n editors: %s\n replica that loaded a snapshot between the two changes and then applied the second: %s", x1, x5))
		return
	}
	if a, b := d5.Root().Marshal(), d5.Marshal(); a != b {
		viol("clone-differs-from-root", fmt.Sprintf("on the mid-snapshot replica Root() shows %s, the document is %s", a, b))
		return
	}
	res.AddSet("matrices", p.m.name)
}

func (w *c19Worker) Run(idx int) runner.CaseResult {
	ps := c19Pairs()
	p := ps[idx/8]
	res := runner.CaseResult{Case: fmt.Sprintf("c19-%d", idx)}
	w.runPair(&res, p, idx%8)
	res.Hash = fmt.Sprintf("%s/%d", p.name(), idx%8)
	res.Nontrivial = true
	if idx%397 == 0 {
		b, _ := json.Marshal(map[string]any{"pair": p.name(), "order": idx % 8})
		res.Sample = b
	}
	return res
}

func (w *c19Worker) Replay(data json.RawMessage) runner.CaseResult {
	res := runner.CaseResult{Case: "replay"}
	var rp struct {
		Pair  string `json:"pair"`
		Order int    `json:"order"`
	}
	_ = json.Unmarshal(data, &rp)
	for _, p := range c19Pairs() {
		if p.name() == rp.Pair {
			w.runPair(&res, p, rp.Order)
			return res
		}
	}
	res.Inconclusive = "unknown pair " + rp.Pair
	return res
}
