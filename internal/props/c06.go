package props

import (
	"encoding/json"
	"fmt"
	"sort"

	"github.com/yorkie-team/yorkie/api/converter"
	api "github.com/yorkie-team/yorkie/api/yorkie/v1"
	"github.com/yorkie-team/yorkie/pkg/document/change"
	"github.com/yorkie-team/yorkie/pkg/document/time"

	"verif/internal/boot"
	"verif/internal/gen"
	"verif/internal/replica"
	"verif/internal/runner"
	"verif/internal/sim"
)

type c06 struct{}

func init() { register(c06{}) }

func (c06) ID() string    { return "C06" }
func (c06) Level() string { return "exploration" }
func (c06) Rule() string {
	return "case = generated history (C01 alphabet; edit-during-sync via split syncs; snapshot thresholds 0/2/5; detach+re-attach; " +
		"late attachers; attachers that opt out of GC on the wire and then make only counter/primitive edits) on the real server. " +
		"Monitors: (a) at creation of every local change c the driver holds the pointwise max vector M and max lamport L of " +
		"everything applied at that replica before (remote changes as delivered, snapshots folded from the server log, own " +
		"earlier changes) and asserts vv(c)>=M, lamport(c)>L, vv(c)[actor]==lamport(c); (b) offline over the server log: " +
		"vv[actor]==lamport, (lamport,actor) unique, lamport strictly increasing per actor in serverSeq order, stored clocks equal " +
		"the clocks the client sent; (c) a client-boundary shadow of the version-vector table (row = vector sent with the client's " +
		"last successful GC-participating request, dropped on detach) and for every response vector: minVV[a] <= row_k[a] for " +
		"every attached participating k. Non-trivial = >=2 editors, >=1 response vector checked against >=2 rows."
}
func (c06) Assumptions() []string {
	return []string{
		"memdb backend",
		"the pointwise clause vv(c)>=vv(d) is not applied to attachments that opted out of GC on the wire: they keep a one-entry vector by design (docs/design/disable-gc-on-attach.md); lamport clauses still apply",
		"presence-only changes carry no clocks and are exempt",
	}
}
func (c06) NumCases(tier string, _ int64) int {
	if tier == "thorough" {
		return 80000
	}
	return 4000
}
func (c06) Exhaustive(string) bool { return false }
func (c06) Floors(string) []runner.Floor {
	return []runner.Floor{{Stat: "changes_checked_at_creation", Min: 2000}, {Stat: "minvv_checks", Min: 2000}, {Stat: "log_rows_checked", Min: 2000}}
}

type c06Worker struct{ *simWorker }

func (c06) NewWorker(tier string, seed int64) (runner.Worker, error) {
	sw, err := newSimWorker(tier, seed, boot.Options{})
	if err != nil {
		return nil, err
	}
	return &c06Worker{sw}, nil
}

// clockMon is the per-world monitor state.
type clockMon struct {
	res     *runner.CaseResult
	w       *sim.World
	fail    func(kind, detail string)
	maxVV   map[string]time.VersionVector // per replica name: pointwise max of everything applied
	maxLam  map[string]int64
	seenCS  map[string]uint32             // per replica: highest clientSeq of local changes already checked
	docOf   map[string]any                // per replica: identity of the Document object (re-attach resets)
	rows    map[string]time.VersionVector // client-boundary shadow of the versionvectors table (by replica name)
	noGC    map[string]bool
	sent    map[string]sentClock // key actor/lamport
	foldSeq map[string]int64     // per replica: server log already folded up to
}

type sentClock struct {
	vv  time.VersionVector
	lam int64
}

func (m *clockMon) fold(name string, id change.ID) {
	if !id.HasClocks() {
		return
	}
	if m.maxVV[name] == nil {
		m.maxVV[name] = time.NewVersionVector()
	}
	vv := id.VersionVector()
	m.maxVV[name].Max(&vv)
	if id.Lamport() > m.maxLam[name] {
		m.maxLam[name] = id.Lamport()
	}
}

// checkNewLocal inspects local changes that appeared since the last look.
func (m *clockMon) checkNewLocal(r *replica.Replica) {
	if r.Doc == nil {
		return
	}
	if m.docOf[r.Name] != any(r.Doc) {
		m.docOf[r.Name] = r.Doc
		m.seenCS[r.Name] = 0
		// a fresh Document knows nothing yet
		m.maxVV[r.Name] = time.NewVersionVector()
		m.maxLam[r.Name] = 0
		m.foldSeq[r.Name] = 0
	}
	for _, c := range r.Doc.CreateChangePack().Changes {
		if c.ClientSeq() <= m.seenCS[r.Name] {
			continue
		}
		m.seenCS[r.Name] = c.ClientSeq()
		id := c.ID()
		if !id.HasClocks() {
			continue
		}
		m.res.AddStat("changes_checked_at_creation", 1)
		vv := id.VersionVector()
		if got := vv.VersionOf(id.ActorID()); got != id.Lamport() {
			m.fail("clock-own-entry", fmt.Sprintf("%s change clientSeq=%d: vv[actor]=%d != lamport=%d", r.Name, c.ClientSeq(), got, id.Lamport()))
		}
		if id.Lamport() <= m.maxLam[r.Name] {
			m.fail("clock-not-newer", fmt.Sprintf("%s change clientSeq=%d: lamport %d is not greater than lamport %d of a change applied there before it was made",
				r.Name, c.ClientSeq(), id.Lamport(), m.maxLam[r.Name]))
		}
		if !m.noGC[r.Name] {
			for a, l := range m.maxVV[r.Name] {
				if vv.VersionOf(a) < l {
					m.fail("clock-not-causal", fmt.Sprintf("%s change clientSeq=%d: vv[%s]=%d < %d although a change with that entry was applied there before it was made (vv=%s)",
						r.Name, c.ClientSeq(), a.String(), vv.VersionOf(a), l, vv.Marshal()))
					break
				}
			}
		}
		m.fold(r.Name, id)
		m.sent[fmt.Sprintf("%s/%d", id.ActorID().String(), id.Lamport())] = sentClock{vv: vv.DeepCopy(), lam: id.Lamport()}
	}
}

func (m *clockMon) onApplied(r *replica.Replica, kind string, pack *change.Pack) {
	// the Document may be new (attach): make sure state is reset first
	if m.docOf[r.Name] != any(r.Doc) {
		m.docOf[r.Name] = r.Doc
		m.seenCS[r.Name] = 0
		m.maxVV[r.Name] = time.NewVersionVector()
		m.maxLam[r.Name] = 0
		m.foldSeq[r.Name] = 0
		// the attach request itself may have carried local changes (initial presence): look at them
	}
	if len(pack.Snapshot) > 0 {
		// knowledge = every stored change up to the response checkpoint
		log, err := m.w.ServerLog()
		if err == nil {
			for _, row := range log {
				if row.ServerSeq > pack.Checkpoint.ServerSeq {
					break
				}
				c, err := row.ToChange()
				if err == nil {
					m.fold(r.Name, c.ID())
				}
			}
		}
		return
	}
	for _, c := range pack.Changes {
		m.fold(r.Name, c.ID())
	}
}

func (m *clockMon) onRequest(r *replica.Replica, kind string, pack *change.Pack) {
	m.checkNewLocal(r)
}

func (m *clockMon) onResponse(r *replica.Replica, kind string, req *change.Pack, pb *api.ChangePack, err error) {
	if err != nil || pb == nil {
		return
	}
	participating := !r.DisableGC
	if kind == "detach" || kind == "remove" {
		delete(m.rows, r.Name)
	} else if participating {
		m.rows[r.Name] = req.VersionVector.DeepCopy()
	}
	if pb.VersionVector == nil || len(pb.Snapshot) > 0 || !participating {
		return
	}
	minVV, e := converter.FromVersionVector(pb.VersionVector)
	if e != nil {
		m.fail("minvv-undecodable", e.Error())
		return
	}
	names := make([]string, 0, len(m.rows))
	for n := range m.rows {
		names = append(names, n)
	}
	sort.Strings(names)
	m.res.AddStat("minvv_checks", 1)
	if len(names) >= 2 {
		m.res.AddStat("minvv_checks_multi_row", 1)
	}
	for a, l := range minVV {
		for _, n := range names {
			if row := m.rows[n]; row.VersionOf(a) < l {
				m.fail("minvv-overstates", fmt.Sprintf("response to %s (%s) carries minVV[%s]=%d but attached client %s last acknowledged %d for that actor (row=%s, minVV=%s)",
					r.Name, kind, a.String(), l, n, row.VersionOf(a), row.Marshal(), minVV.Marshal()))
				return
			}
		}
	}
}

func (m *clockMon) checkLog() {
	log, err := m.w.ServerLog()
	if err != nil {
		return
	}
	seen := map[string]int64{}
	lastLam := map[string]int64{}
	for _, row := range log {
		c, err := row.ToChange()
		if err != nil {
			m.fail("stored-change-undecodable", err.Error())
			return
		}
		id := c.ID()
		if !id.HasClocks() {
			continue
		}
		m.res.AddStat("log_rows_checked", 1)
		a := id.ActorID().String()
		vv := id.VersionVector()
		if vv.VersionOf(id.ActorID()) != id.Lamport() {
			m.fail("log-own-entry", fmt.Sprintf("serverSeq %d: vv[actor]=%d != lamport=%d", row.ServerSeq, vv.VersionOf(id.ActorID()), id.Lamport()))
		}
		k := fmt.Sprintf("%s/%d", a, id.Lamport())
		if prev, dup := seen[k]; dup {
			m.fail("log-duplicate-clock", fmt.Sprintf("serverSeq %d and %d carry the same (lamport=%d, actor=%s)", prev, row.ServerSeq, id.Lamport(), a))
		}
		seen[k] = row.ServerSeq
		if id.Lamport() <= lastLam[a] {
			m.fail("log-lamport-not-increasing", fmt.Sprintf("serverSeq %d: actor %s lamport %d after %d", row.ServerSeq, a, id.Lamport(), lastLam[a]))
		}
		lastLam[a] = id.Lamport()
		if s, ok := m.sent[k]; ok {
			if !s.vv.Equal(vv) {
				m.fail("log-clock-altered", fmt.Sprintf("serverSeq %d: stored vv %s differs from the vv the client created %s", row.ServerSeq, vv.Marshal(), s.vv.Marshal()))
			}
		}
	}
}

func c06Cfg(tier string, seed int64, idx int) (sim.GenCfg, sim.WorldCfg) {
	rng := caseRng(seed^0xc06, idx)
	g := sim.GenCfg{
		N:            2 + rng.Intn(3),
		MaxReps:      5,
		Steps:        14 + rng.Intn(30),
		Profile:      gen.DefaultProfile(),
		SplitSyncPct: 35,
		PushOnlyPct:  10,
		DetachPct:    4,
		QuiescePct:   3,
		MultiEditPct: 10,
		Offline:      rng.Intn(3) == 0,
		EditPct:      50,
		WireNoGCPct:  15,
	}
	if tier == "thorough" {
		g.Steps = 14 + rng.Intn(70)
	}
	cfg := sim.WorldCfg{Snap: []int64{0, 2, 5}[rng.Intn(3)]}
	return g, cfg
}

func (w *c06Worker) run(res *runner.CaseResult, idx int, replay *sim.History, cfg sim.WorldCfg, g sim.GenCfg) {
	var vet Vetoed
	g.Guard = makeGuard(Guards{ArrSetMoved: true, InsertBeforeTombstone: true}, &vet)
	proj, err := w.project(cfg.Snap)
	if err != nil {
		res.Inconclusive = err.Error()
		return
	}
	world := sim.NewWorld(w.env, proj, cfg, fmt.Sprintf("c06-%d", idx))
	m := &clockMon{res: res, w: world, maxVV: map[string]time.VersionVector{}, maxLam: map[string]int64{}, seenCS: map[string]uint32{},
		docOf: map[string]any{}, rows: map[string]time.VersionVector{}, noGC: map[string]bool{}, sent: map[string]sentClock{}, foldSeq: map[string]int64{}}
	var clockFails []sim.Failure
	m.fail = func(kind, detail string) {
		if len(clockFails) < 5 {
			clockFails = append(clockFails, sim.Failure{Kind: kind, Detail: fmt.Sprintf("step %d: %s", len(world.Events), detail)})
		}
	}
	obs := &packObs{onReq: m.onRequest, onResp: m.onResponse, onApplied: m.onApplied}
	world.Obs = obs
	world.AfterStep = func(wd *sim.World, st sim.Step, r *replica.Replica) {
		if st.T == "attach" {
			m.noGC[r.Name] = st.WireNoGC
		}
		if st.T == "edit" || st.T == "undo" || st.T == "redo" || st.T == "attach" {
			m.checkNewLocal(r)
		}
	}
	var h sim.History
	if replay != nil {
		h = *replay
		world.RunHistory(h)
	} else {
		h = world.RunGenerated(caseRng(w.seed, idx), g)
	}
	m.checkLog()
	res.Hash = runner.HashOf(map[string]any{"s": h.Steps, "c": cfg})
	editors, applied := historyStats(res, world, h)
	res.AddStat("snapshot_pulls", int64(obs.snapshots))
	res.Nontrivial = editors >= 2 && applied >= 4 && res.Stats["minvv_checks_multi_row"] >= 1
	for _, f := range clockFails {
		res.Violate(f.Kind, f.Detail, "", h)
	}
	// convergence failures etc. belong to C01/C03; they are only noted here
	if len(world.Fail) > 0 {
		res.AddStat("world_failures_not_judged_here", int64(len(world.Fail)))
		res.Notes = append(res.Notes, world.Fail[0].Kind+": "+world.Fail[0].Detail)
	}
	if idx%97 == 0 || len(res.Viol) > 0 {
		res.Sample = sampleOf(h, map[string]any{"minvv_checks": res.Stats["minvv_checks"], "changes_checked": res.Stats["changes_checked_at_creation"]})
	}
}

// c06EmptyVector builds a history INSIDE the precondition of recorded finding F-SNAPVV-EMPTY:
// every client opts out of garbage collection (no version-vector row exists), snapshots are
// stored meanwhile (with an empty vector) and served from the store, not the cache; then a
// fresh client attaches, is fed by such a snapshot and edits. What the finding explains - the
// newcomer's vector lacks earlier actors (clock-not-causal) - is counted; every other clause
// (lamport strictly newer than everything applied, own entry, uniqueness in the log) is judged.
func c06EmptyVector(seed int64, idx int) sim.History {
	rng := caseRng(seed^0xc06e, idx)
	h := sim.History{Cfg: sim.WorldCfg{Snap: int64(2 + rng.Intn(2)), ColdCache: true}}
	h.Steps = append(h.Steps, sim.Step{T: "attach", R: 0, WireNoGC: true}, sim.Step{T: "attach", R: 1, WireNoGC: true},
		sim.Step{T: "edit", R: 0, E: gen.InitEdits()}, sim.Step{T: "sync", R: 0}, sim.Step{T: "sync", R: 1})
	set := func(r int, k string) sim.Step {
		return sim.Step{T: "edit", R: r, E: []gen.Edit{{Op: "obj.set", K: k, V: &gen.Val{T: "str", S: fmt.Sprintf("v%d", rng.Intn(100))}}}}
	}
	for k := 3 + rng.Intn(5); k > 0; k-- {
		r := rng.Intn(2)
		h.Steps = append(h.Steps, set(r, []string{"a", "b", "c"}[rng.Intn(3)]), sim.Step{T: "sync", R: r})
	}
	h.Steps = append(h.Steps, sim.Step{T: "quiesce"})
	if rng.Intn(2) == 0 {
		// the last clients leave: the detach is the push that crosses the snapshot interval
		h.Steps = append(h.Steps, sim.Step{T: "detach", R: 0}, sim.Step{T: "detach", R: 1})
	}
	h.Steps = append(h.Steps, sim.Step{T: "attach", R: 2, WireNoGC: rng.Intn(2) == 0})
	for k := 1 + rng.Intn(3); k > 0; k-- {
		h.Steps = append(h.Steps, set(2, []string{"a", "b", "c"}[rng.Intn(3)]), sim.Step{T: "sync", R: 2})
	}
	h.Steps = append(h.Steps, sim.Step{T: "quiesce"})
	return h
}

func (w *c06Worker) Run(idx int) runner.CaseResult {
	res := runner.CaseResult{Case: fmt.Sprintf("c06-%d", idx)}
	if idx%20 == 19 {
		h := c06EmptyVector(w.seed, idx)
		var inner runner.CaseResult
		w.run(&inner, idx, &h, h.Cfg, sim.GenCfg{})
		res = inner
		res.Case = fmt.Sprintf("c06-%d", idx)
		res.Viol = nil
		for _, v := range inner.Viol {
			if v.Kind == "clock-not-causal" {
				res.AddStat("empty_vector_family_attributed_to_F-SNAPVV-EMPTY", 1)
				continue
			}
			res.Viol = append(res.Viol, v)
		}
		res.AddStat("empty_vector_family_cases", 1)
		res.AddStat("empty_vector_family_snapshot_pulls", inner.Stats["snapshot_pulls"])
		return res
	}
	g, cfg := c06Cfg(w.tier, w.seed, idx)
	w.run(&res, idx, nil, cfg, g)
	return res
}

func (w *c06Worker) Replay(data json.RawMessage) runner.CaseResult {
	res := runner.CaseResult{Case: "replay"}
	var h sim.History
	if err := json.Unmarshal(data, &h); err != nil {
		res.Inconclusive = err.Error()
		return res
	}
	w.run(&res, 0, &h, h.Cfg, sim.GenCfg{})
	return res
}
