package props

import (
	"encoding/json"
	"fmt"
	"math/rand"
	"os"
	"sort"
	"strings"

	"github.com/yorkie-team/yorkie/pkg/document"
	"github.com/yorkie-team/yorkie/pkg/document/change"
	"github.com/yorkie-team/yorkie/pkg/document/crdt"
	yjson "github.com/yorkie-team/yorkie/pkg/document/json"
	"github.com/yorkie-team/yorkie/pkg/document/operations"
	"github.com/yorkie-team/yorkie/pkg/document/presence"
	"github.com/yorkie-team/yorkie/pkg/document/time"
	"github.com/yorkie-team/yorkie/pkg/key"

	"verif/internal/gen"
	"verif/internal/model"
	"verif/internal/runner"
)

type c15 struct{}

func init() { register(c15{}) }

func (c15) ID() string    { return "C15" }
func (c15) Level() string { return "exploration" }
func (c15) Rule() string {
	return "replicas are real Documents exchanging changes through an in-process change log that does what the server does: every " +
		"pushed change crosses the wire codec, is appended in push order, each puller gets the changes of the others it has not " +
		"seen plus the minimum of the version vectors the pushers reported (so every pull garbage-collects like a real one; a " +
		"GC-off twin configuration runs the same histories without it). (exhaustive) 2 replicas, a base document per family " +
		"(text / array / tree / object+counter+nested array), ALL event sequences up to length 5 (thorough: 6) over {edit_k by A, " +
		"edit_k by B (k ranges over a reduced, state-dependent C14 content alphabet), undo/redo by A, undo/redo by B, sync A, " +
		"sync B} with <=3 edits per replica and <=2 undo/redo calls (thorough: 3), every prefix evaluated. (random) 2..3 replicas, " +
		"longer histories over the full generator alphabet incl. styles and array moves, undo/redo bursts, offline stretches. " +
		"Oracle per history: no Update/Undo/Redo/sync returns an error or panics; after the closing sync rounds and a final " +
		"collection at the common minimum vector all replicas marshal byte-identically, and a fresh replica built from the log " +
		"alone shows the same canonical content. Non-trivial = >=1 undo/redo executed and >=1 change pulled by a peer. \"tick\" macro event (clock order of an undo vs a concurrent edit); an undo/redo that changes the document must leave a local change; symptoms of recorded findings never end an enumeration; F-UNDO-AFTER-PURGE identified by an observed re-creation of a purged node plus placement-only difference or a later edit."
}
func (c15) Assumptions() []string {
	return []string{"in-process log instead of the RPC server (C01/C03 cover the server path; the sim generator also mixes undo into C03-style server histories)",
		"dedup counters, tree split/merge edits and array set-by-index are not generated (outside the quantifier / recorded findings)",
		"the exhaustive alphabets are reduced to at most 3 (thorough 4) edits per state, chosen deterministically across the C14 alphabet"}
}
func (c15) NumCases(tier string, _ int64) int {
	if tier == "thorough" {
		return c15ExhCases + 40000
	}
	return c15ExhCases + 8000
}
func (c15) Exhaustive(string) bool { return false }
func (c15) Floors(string) []runner.Floor {
	return []runner.Floor{{Stat: "histories_evaluated", Min: 20000}, {Stat: "undo_redo_calls", Min: 20000}, {Stat: "changes_pulled", Min: 40000}, {Stat: "collections_with_garbage", Min: 1000}}
}

type c15Worker struct {
	tier string
	seed int64
}

func (c15) NewWorker(tier string, seed int64) (runner.Worker, error) {
	return &c15Worker{tier: tier, seed: seed}, nil
}
func (w *c15Worker) Close() {}

type c15Step struct {
	W string    `json:"w"`
	T string    `json:"t"` // edit | undo | redo | sync | round (W="*") | lead | tick
	E *gen.Edit `json:"e,omitempty"`
}

func (s c15Step) String() string {
	if s.E != nil {
		return s.W + ":" + s.E.String()
	}
	return s.W + ":" + s.T
}

type c15Replay struct {
	Family string     `json:"family"`
	Seed   int64      `json:"seed"`
	Idx    int        `json:"idx"`
	GC     bool       `json:"gc"`
	Clear  bool       `json:"clear"` // histories cleared after the base document was built
	N      int        `json:"n"`     // replicas
	Base   []gen.Edit `json:"base"`
	// Skew names the replica that makes one unrelated edit after the base document is
	// shared: every OTHER replica's Lamport clock is then one ahead of it. Which of two
	// concurrent tickets is newer decides last-writer-wins races between an undo/redo and a
	// peer's edit; without this the replica that edited last is always the one behind.
	Skew  string    `json:"skew,omitempty"`
	Steps []c15Step `json:"steps"`
}

var c15Actors = func() []time.ActorID {
	var out []time.ActorID
	for _, h := range []string{"0000000000000000000000aa", "0000000000000000000000bb", "0000000000000000000000cc"} {
		a, _ := time.ActorIDFromHex(h)
		out = append(out, a)
	}
	return out
}()

// c15World is the replicas plus the change log standing in for the server.
type c15World struct {
	res     *runner.CaseResult
	rp      c15Replay
	names   []string
	docs    map[string]*document.Document
	log     [][]byte // one encoded pack per pushed change
	authors []string
	cursor  map[string]int
	vv      map[string]time.VersionVector
	bad     bool
	steps   []c15Step
	undone  int
	pulled  int
	ticks   int
	// restores: undo/redo calls so far whose change carries a restore-mode operation (the
	// kind of operation a replica applies by re-creating nodes it has purged)
	restores int
	// ever: per replica, the identity of every text piece / tree node it ever held;
	// recreated: some replica brought back, as a NEW node, one that it had purged (by its own
	// undo/redo or by applying a peer's): the precise precondition of F-UNDO-AFTER-PURGE
	ever      map[string]map[string]bool
	recreated bool
	// onlyPlacementDiffers (set where two documents are found to differ): both hold the same
	// characters, nodes and values, only their order / position differs - the symptom of
	// F-UNDO-AFTER-PURGE (a re-created node is PLACED by guessing) - or what differs was
	// written by clients that never undid anything (see foreignOnlyDifference). Content of
	// the UNDOING client that is missing, doubled or different on one side is not that
	// finding.
	onlyPlacementDiffers bool
	// undoers: actors that made an undo/redo call
	undoers map[string]bool
	// editedAfterRecreation: an edit, undo or redo was made after an undo/redo that carries a
	// RESTORE (which some replica, possibly much later, applies by re-creating purged nodes). Ranges are resolved between two positions; where the replicas order the
	// content differently the same range covers different nodes, and the difference is no
	// longer one of placement only.
	editedAfterRecreation bool
	// arrayRisk: a change inserted an array element next to a tombstone (precondition of F-RGA-PURGE)
	sawDupRestore bool
	race          bool
	// purged: some replica's collection removed tombstones; undoAfterPurge: an undo or
	// redo ran after that (precondition of F-UNDO-AFTER-PURGE)
	purged         bool
	undoAfterPurge bool
	rgaRisk        bool
	// refTombstone: an undo/redo produced an array operation whose anchor or target is a
	// tombstone / dead slot at its author (every client has acknowledged its removal, so
	// a peer may have collected it already)
	refTombstone bool
	// undoChanges: "<actor>/<clientSeq>" of the changes Undo/Redo produced
	undoChanges map[string]bool
}

func newC15World(res *runner.CaseResult, rp c15Replay) *c15World {
	w := &c15World{res: res, rp: rp, docs: map[string]*document.Document{}, cursor: map[string]int{}, vv: map[string]time.VersionVector{}}
	for i := 0; i < rp.N; i++ {
		n := string(rune('A' + i))
		d := document.New(key.Key("c15-doc"))
		d.SetActor(c15Actors[i])
		d.SetStatus(document.StatusAttached)
		w.names = append(w.names, n)
		w.docs[n] = d
	}
	// base document: built by A, pulled by everybody, then (optionally) histories cleared
	for i := range rp.Base {
		if err := safeUpdate(w.docs["A"], []gen.Edit{rp.Base[i]}); err != nil {
			w.viol("base-failed", err.Error())
			return w
		}
	}
	for _, n := range w.names {
		w.sync(n)
	}
	for _, n := range w.names {
		w.sync(n)
	}
	if rp.Clear {
		for _, n := range w.names {
			_ = w.docs[n].ClearHistory()
		}
	}
	if d, ok := w.docs[rp.Skew]; ok {
		_ = d.Update(func(root *yjson.Object, _ *presence.Presence) error {
			root.SetInteger("skew", 1)
			return nil
		})
		w.sync(rp.Skew)
		for _, n := range w.names {
			w.sync(n)
		}
	}
	w.steps = nil
	w.undone, w.pulled = 0, 0
	return w
}

func (w *c15World) viol(kind, detail string) {
	if w.bad {
		return
	}
	w.bad = true
	var prog []string
	for _, st := range w.steps {
		prog = append(prog, st.String())
	}
	rp := w.rp
	rp.Steps = append([]c15Step(nil), w.steps...)
	ident := ""
	if !w.race && !w.sawDupRestore {
		var logged []*change.Change
		for _, raw := range w.log {
			if cs, err := decodePack(raw); err == nil {
				logged = append(logged, cs...)
			}
		}
		// what the replicas still hold unpushed takes part as well
		for _, n := range w.names {
			logged = append(logged, w.docs[n].CreateChangePack().Changes...)
		}
		switch t := c15RestoreDeleteRace(logged, w.undoChanges); {
		case strings.HasPrefix(t, "twice:"):
			w.sawDupRestore = true
		case t != "":
			w.race = true
		}
	}
	switch {
	case w.race && (kind == "replicas-diverged" || kind == "late-replica-differs" || kind == "sync-failed" || kind == "log-not-replayable" || kind == "undo-failed" || kind == "redo-failed"):
		// once such a race happened the replicas hold different tombstones; with
		// collection on, one side purges what the other still edits
		ident = "restore-vs-concurrent-delete:" + kind
	case w.sawDupRestore:
		ident = "same-identity-restored-twice:" + kind
	case w.rgaRisk && (kind == "replicas-diverged" || kind == "late-replica-differs"):
		ident = "array-insert-next-to-tombstone:" + kind
	case w.refTombstone && (kind == "sync-failed" || kind == "log-not-replayable" || kind == "replicas-diverged" || kind == "late-replica-differs"):
		ident = "undo-after-purge:array-anchor:" + kind
	case w.recreated && ((kind == "replicas-diverged" || kind == "late-replica-differs") && (w.onlyPlacementDiffers || w.editedAfterRecreation) || kind == "sync-failed" || kind == "log-not-replayable"):
		// F-UNDO-AFTER-PURGE, observed precisely: some replica (the author of an undo/redo,
		// or a peer applying it) had purged a text piece / tree node and re-created it from
		// the restore span, while a replica that still held the tombstone revived it in
		// place. Where a re-created node goes is a guess (C14 shows the single-client form).
		ident = "undo-after-purge:recreated:" + kind
	case w.undoAfterPurge && w.rp.Family == "exhaustive-text" && w.textEditedByTwoActors() && (w.onlyPlacementDiffers || w.editedAfterRecreation || (kind != "replicas-diverged" && kind != "late-replica-differs")):
		// GC-recreate of purged text next to content another client wrote: the collected
		// replicas and a replica that still holds the tombstones place it differently.
		// Undo after a purge on a text only ONE client ever edited stays fully judged.
		ident = "undo-after-purge:text-two-writers:" + kind
	case w.undoAfterPurge && (w.rp.Family == "random" || w.rp.Family == "exhaustive-tree") && (w.onlyPlacementDiffers || w.editedAfterRecreation || (kind != "replicas-diverged" && kind != "late-replica-differs")):
		// F-UNDO-AFTER-PURGE: recorded for trees (small scope) and for the mixed random
		// family; the exhaustive text / array / object families stay fully judged
		ident = "undo-after-purge:" + w.rp.Family + ":" + kind
	}
	if ident != "" {
		// a symptom of a recorded finding: counted every time, kept (for the KNOWN-FINDING
		// line and its replay) only a few times per case - it must not use up the budget
		// that ends an enumeration
		w.res.AddStat("attributed_to_recorded_findings", 1)
		n := 0
		for _, v := range w.res.Viol {
			if v.Ident == ident {
				n++
			}
		}
		if n >= 2 {
			return
		}
	}
	w.res.Violate(kind, fmt.Sprintf("%s\n(family %s, gc=%v, histories cleared=%v) history: %s", detail, w.rp.Family, w.rp.GC, w.rp.Clear, strings.Join(prog, "; ")), ident, rp)
}

// foreignOnlyDifference: the two documents hold different text / tree content, and every
// character, tag or attribute set that one side has and the other lacks was AUTHORED by a
// client that made no undo/redo call. That is the third face of F-UNDO-AFTER-PURGE: a
// replica that re-creates a purged element from the undoer's restore spans gets the
// undoer's nodes only; what another client had inserted into that element before it was
// removed is gone there, while a replica that still holds the tombstones revives it too.
func foreignOnlyDifference(a, b *document.Document, undoers map[string]bool) bool {
	ta, tb := authoredTokens(a), authoredTokens(b)
	differs := false
	for tok, n := range ta {
		if tb[tok] != n {
			differs = true
			if undoers[tok[strings.LastIndex(tok, "@")+1:]] {
				return false
			}
		}
	}
	for tok, n := range tb {
		if ta[tok] != n {
			differs = true
			if undoers[tok[strings.LastIndex(tok, "@")+1:]] {
				return false
			}
		}
	}
	return differs
}

// authoredTokens: every live character / tree node with its attributes and "@<actor that
// created it>", counted.
func authoredTokens(d *document.Document) map[string]int {
	out := map[string]int{}
	var walk func(e crdt.Element)
	walk = func(e crdt.Element) {
		switch v := e.(type) {
		case *crdt.Object:
			for _, m := range v.Members() {
				walk(m)
			}
		case *crdt.Array:
			for _, m := range v.Elements() {
				walk(m)
			}
		case *crdt.Text:
			for _, n := range v.Nodes() {
				if n.RemovedAt() != nil {
					continue
				}
				a := ""
				if n.Value().Attrs() != nil {
					a = attrString(n.Value().Attrs().Elements())
				}
				for _, r := range n.Value().Value() {
					out["t "+string(r)+a+"@"+n.ID().CreatedAt().ActorID().String()]++
				}
			}
		case *crdt.Tree:
			for _, n := range v.Nodes() {
				if n.IsRemoved() {
					continue
				}
				who := "@" + n.ID().CreatedAt.ActorID().String()
				if n.IsText() {
					for _, r := range n.Value {
						out["x "+string(r)+who]++
					}
					continue
				}
				a := ""
				if n.Attrs != nil {
					a = attrString(n.Attrs.Elements())
				}
				out["e "+n.Type()+a+who]++
			}
		}
	}
	walk(d.RootObject())
	return out
}

// contentBag renders a document with every Text as the sorted bag of its characters (with
// their attributes) and every Tree as the sorted bag of its element tags (with attributes)
// and text characters; everything else as it is. Two documents with equal bags differ, if at
// all, only in WHERE text and tree content stands.
func contentBag(d *document.Document) string {
	var sb strings.Builder
	var walk func(e crdt.Element)
	walk = func(e crdt.Element) {
		switch v := e.(type) {
		case *crdt.Object:
			m := v.Members()
			ks := make([]string, 0, len(m))
			for k := range m {
				ks = append(ks, k)
			}
			sort.Strings(ks)
			sb.WriteString("{")
			for _, k := range ks {
				sb.WriteString(k + ":")
				walk(m[k])
				sb.WriteString(",")
			}
			sb.WriteString("}")
		case *crdt.Array:
			sb.WriteString("[")
			for _, el := range v.Elements() {
				walk(el)
				sb.WriteString(",")
			}
			sb.WriteString("]")
		case *crdt.Text:
			var toks []string
			for _, n := range v.Nodes() {
				if n.RemovedAt() != nil {
					continue
				}
				a := ""
				if n.Value().Attrs() != nil {
					a = attrString(n.Value().Attrs().Elements())
				}
				for _, r := range n.Value().Value() {
					toks = append(toks, string(r)+a)
				}
			}
			sort.Strings(toks)
			sb.WriteString("text" + strings.Join(toks, "|"))
		case *crdt.Tree:
			var toks []string
			for _, n := range v.Nodes() {
				if n.IsRemoved() {
					continue
				}
				if n.IsText() {
					for _, r := range n.Value {
						toks = append(toks, "'"+string(r))
					}
					continue
				}
				a := ""
				if n.Attrs != nil {
					a = attrString(n.Attrs.Elements())
				}
				toks = append(toks, "<"+n.Type()+a+">")
			}
			sort.Strings(toks)
			sb.WriteString("tree" + strings.Join(toks, "|"))
		default:
			sb.WriteString(e.Marshal())
		}
	}
	walk(d.RootObject())
	return sb.String()
}

func attrString(m map[string]string) string {
	ks := make([]string, 0, len(m))
	for k := range m {
		ks = append(ks, k)
	}
	sort.Strings(ks)
	s := ""
	for _, k := range ks {
		s += " " + k + "=" + m[k]
	}
	return s
}

// unattributed counts the violations of a case that no recorded finding explains.
func unattributed(res *runner.CaseResult) int {
	n := 0
	for _, v := range res.Viol {
		if v.Ident == "" {
			n++
		}
	}
	return n
}

// textEditedByTwoActors: did two different clients write to a Text (pushed or not)?
func (w *c15World) textEditedByTwoActors() bool {
	actors := map[string]map[string]bool{}
	note := func(cs []*change.Change) {
		for _, c := range cs {
			for _, op := range c.Operations() {
				switch op.(type) {
				case *operations.Edit, *operations.Style:
					k := op.ParentCreatedAt().Key()
					if actors[k] == nil {
						actors[k] = map[string]bool{}
					}
					actors[k][c.ID().ActorID().String()] = true
				}
			}
		}
	}
	for _, raw := range w.log {
		if cs, err := decodePack(raw); err == nil {
			note(cs)
		}
	}
	for _, n := range w.names {
		note(w.docs[n].CreateChangePack().Changes)
	}
	for _, a := range actors {
		if len(a) >= 2 {
			return true
		}
	}
	return false
}

// watchRecreation remembers what replica n holds now and returns a function to call after
// the operation: a node that is back although it was absent just before the operation and
// had been there earlier was re-created from a restore span after its purge.
func (w *c15World) watchRecreation(n string) func() {
	if !w.rp.GC {
		return func() {}
	}
	if w.ever == nil {
		w.ever = map[string]map[string]bool{}
	}
	if w.ever[n] == nil {
		w.ever[n] = map[string]bool{}
	}
	before := c14NodeIDs(w.docs[n])
	for id := range before {
		w.ever[n][id] = true
	}
	return func() {
		if w.recreated {
			return
		}
		for id := range c14NodeIDs(w.docs[n]) {
			if !before[id] && w.ever[n][id] {
				w.recreated = true
				w.res.AddStat("replicas_that_recreated_a_purged_node", 1)
				return
			}
		}
	}
}

func (w *c15World) sync(n string) {
	if w.bad {
		return
	}
	d := w.docs[n]
	defer w.watchRecreation(n)()
	pack := d.CreateChangePack()
	for _, c := range pack.Changes {
		pb, raw, err := viaWire([]*change.Change{c}, d.Key())
		_ = pb
		if err != nil {
			w.viol("change-not-encodable", err.Error())
			return
		}
		w.log = append(w.log, raw)
		w.authors = append(w.authors, n)
	}
	w.vv[n] = pack.VersionVector.DeepCopy()
	var pulled []*change.Change
	for i := w.cursor[n]; i < len(w.log); i++ {
		if w.authors[i] == n {
			continue
		}
		cs, err := decodePack(w.log[i])
		if err != nil {
			w.viol("change-not-decodable", err.Error())
			return
		}
		// serverSeq of the change as the server would stamp it
		for _, c := range cs {
			c.SetServerSeq(int64(i + 1))
		}
		pulled = append(pulled, cs...)
	}
	w.cursor[n] = len(w.log)
	var minVV time.VersionVector
	if w.rp.GC {
		var all []time.VersionVector
		for _, m := range w.names {
			if v, ok := w.vv[m]; ok {
				all = append(all, v)
			} else {
				all = nil // somebody has not reported yet: nothing may be collected
				break
			}
		}
		if len(all) == len(w.names) {
			minVV = time.MinVersionVector(all...)
		}
	}
	// the pack is applied without a vector and the collection ApplyChangePack would run
	// with it is called right after, so that what it purged can be counted
	resp := change.NewPack(d.Key(), change.NewCheckpoint(int64(len(w.log)), pack.Checkpoint.ClientSeq), pulled, nil, nil)
	collected := 0
	var err error
	func() {
		defer func() {
			if x := recover(); x != nil {
				err = fmt.Errorf("PANIC: %v", x)
			}
		}()
		if err = d.ApplyChangePack(resp); err == nil && minVV != nil {
			collected = d.GarbageCollect(minVV)
		}
	}()
	if err != nil {
		w.viol("sync-failed", fmt.Sprintf("replica %s cannot apply %d pulled change(s): %v", n, len(pulled), err))
		return
	}
	if len(pulled) > 0 {
		w.pulled += len(pulled)
		w.res.AddStat("changes_pulled", int64(len(pulled)))
	}
	if collected > 0 {
		w.res.AddStat("collections_with_garbage", 1)
		w.purged = true
	}
}

func decodePack(raw []byte) ([]*change.Change, error) {
	cs, _, err := reDecode(raw)
	return cs, err
}

func (w *c15World) do(st c15Step) bool {
	if w.bad {
		return false
	}
	d := w.docs[st.W]
	switch st.T {
	case "edit":
		if w.restores > 0 {
			w.editedAfterRecreation = true
		}
		if w.rp.GC && strings.HasPrefix(st.E.Op, "arr.") {
			// the same precondition the generator of C01-C03 fences (F-RGA-PURGE): detected,
			// not vetoed - the exhaustive families enumerate every edit
			var v Vetoed
			e := *st.E
			if !makeGuardDoc(Guards{InsertBeforeTombstone: true}, &v)(d, &e) {
				w.rgaRisk = true
				w.res.AddStat("array_insertions_next_to_tombstone", 1)
			}
		}
		if err := safeUpdate(d, []gen.Edit{*st.E}); err != nil {
			if strings.HasPrefix(err.Error(), "PANIC") {
				w.steps = append(w.steps, st)
				w.viol("update-panicked", err.Error())
			}
			return false
		}
		w.steps = append(w.steps, st)
	case "undo", "redo":
		if (st.T == "undo" && !d.CanUndo()) || (st.T == "redo" && !d.CanRedo()) {
			return false
		}
		if w.restores > 0 {
			w.editedAfterRecreation = true
		}
		w.steps = append(w.steps, st)
		w.undone++
		if w.undoers == nil {
			w.undoers = map[string]bool{}
		}
		w.undoers[d.ActorID().String()] = true
		w.res.AddStat("undo_redo_calls", 1)
		if w.purged {
			w.undoAfterPurge = true
			w.res.AddStat("undo_redo_calls_after_a_purge", 1)
		}
		defer w.watchRecreation(st.W)()
		nBefore := len(d.CreateChangePack().Changes)
		contentBefore := d.Marshal()
		if err := safeUndo(d, st.T == "undo"); err != nil {
			w.viol(st.T+"-failed", fmt.Sprintf("%s on replica %s returned: %v", st.T, st.W, err))
			return false
		}
		if after := d.Marshal(); after != contentBefore && len(d.CreateChangePack().Changes) == nBefore {
			// the anchor mechanism of the property: "undo/redo changes are appended to the
			// local changes and pushed". A call that changes the author's document and leaves
			// no change behind can never reach a peer.
			w.viol("undo-changed-the-document-without-a-change", fmt.Sprintf("%s on replica %s changed the document from %s to %s but created no local change: no peer will ever see it", st.T, st.W, contentBefore, after))
			return false
		}
		if cs := d.CreateChangePack().Changes; len(cs) > nBefore {
			if w.undoChanges == nil {
				w.undoChanges = map[string]bool{}
			}
			for _, c := range cs[nBefore:] {
				w.undoChanges[fmt.Sprintf("%s/%d", c.ID().ActorID().String(), c.ID().ClientSeq())] = true
				for _, op := range c.Operations() {
					// what an identity-preserving reverse REVIVES depends on its direction:
					// restoreSpans in restore mode, retombstoneSpans in retombstone mode
					switch o := op.(type) {
					case *operations.Edit:
						if o.RestoreMode() == crdt.RestoreModeRestore && len(o.RestoreSpans()) > 0 ||
							o.RestoreMode() == crdt.RestoreModeRetombstone && len(o.RetombstoneSpans()) > 0 {
							w.restores++
						}
					case *operations.TreeEdit:
						if o.RestoreMode() == crdt.RestoreModeRestore && len(o.RestoreSpans()) > 0 ||
							o.RestoreMode() == crdt.RestoreModeRetombstone && len(o.RetombstoneSpans()) > 0 {
							w.restores++
						}
					}
				}
			}
		}
		if a, b := d.Root().Marshal(), d.Marshal(); a != b {
			w.viol("clone-differs-from-root", fmt.Sprintf("after %s on %s: Root() shows %s but the document is %s", st.T, st.W, a, b))
			return false
		}
		w.checkIndexes("after " + st.T + " on " + st.W)
		if w.bad {
			return false
		}
		if w.rp.GC && c15RefersToTombstone(d) {
			w.refTombstone = true
			w.res.AddStat("undo_array_operation_refers_to_tombstone", 1)
		}
		if w.rp.GC && c15PlacedNextToTombstone(d) {
			// precondition of recorded finding F-RGA-PURGE (the generator fences it for
			// ordinary edits; what an undo re-inserts cannot be vetoed beforehand)
			w.rgaRisk = true
			w.res.AddStat("undo_placed_array_element_next_to_tombstone", 1)
		}
	case "sync":
		w.steps = append(w.steps, st)
		w.sync(st.W)
		w.checkIndexes("after sync of " + st.W)
	case "tick":
		// st.W makes one unrelated edit and everybody else pulls it: their Lamport clocks are
		// now AHEAD of st.W's. Without this the replica that acted last before a round is
		// always the one behind, and a last-writer-wins race between an undo/redo and a
		// peer's concurrent edit is only ever seen one way round. (A presence-only change
		// would not do: it does not advance the clock.)
		w.steps = append(w.steps, st)
		w.ticks++
		n := w.ticks
		if err := d.Update(func(root *yjson.Object, _ *presence.Presence) error {
			root.SetInteger("tick", n)
			return nil
		}); err != nil {
			w.viol("update-failed", "tick: "+err.Error())
			return false
		}
		w.sync(st.W)
		for _, o := range w.names {
			if o != st.W {
				w.sync(o)
			}
		}
		w.res.AddStat("clock_ticks", 1)
	case "lead":
		defer w.checkIndexes("after lead")
		// st.W pushes, everybody else pulls and acknowledges, st.W syncs again: st.W has
		// now collected what the others have seen, the others still hold the tombstones
		w.steps = append(w.steps, st)
		w.sync(st.W)
		for r := 0; r < 2 && !w.bad; r++ {
			for _, n := range w.names {
				if n != st.W {
					w.sync(n)
				}
			}
		}
		w.sync(st.W)
		w.sync(st.W)
	case "round":
		defer w.checkIndexes("after a round")
		// everybody syncs until nothing is pending: all replicas have seen everything
		// and (collection on) have purged what the common minimum vector allows
		w.steps = append(w.steps, st)
		for r := 0; r < 3 && !w.bad; r++ {
			for _, n := range w.names {
				w.sync(n)
			}
		}
	}
	return !w.bad
}

// checkIndexes: the index structures of every Text must agree with its node chain after
// every step (a stale weight is invisible in Marshal() until an index-based edit hits it).
func (w *c15World) checkIndexes(where string) {
	if w.bad {
		return
	}
	for _, n := range w.names {
		bad := ""
		var walk func(e crdt.Element)
		walk = func(e crdt.Element) {
			switch v := e.(type) {
			case *crdt.Object:
				for _, m := range v.Members() {
					walk(m)
				}
			case *crdt.Array:
				for _, m := range v.Elements() {
					walk(m)
				}
			case *crdt.Text:
				func() {
					defer func() {
						if x := recover(); x != nil {
							bad = fmt.Sprintf("CheckWeight panicked: %v", x)
						}
					}()
					if !v.CheckWeight() {
						bad = "the splay tree's weights disagree with the node chain: " + v.ToTestString()
					} else if p := textChainProblem(v); p != "" {
						bad = p
					}
				}()
			case *crdt.Tree:
				if p := treeChainProblem(v); p != "" {
					bad = p
				}
			}
		}
		walk(w.docs[n].RootObject())
		if bad == "" {
			bad = registryProblem(w.docs[n])
		}
		if bad != "" {
			w.viol("structure-corrupt", fmt.Sprintf("%s, replica %s: %s", where, n, bad))
			return
		}
		w.res.AddStat("text_index_checks", 1)
	}
}

// finish runs the closing rounds and the oracle.
func (w *c15World) finish() {
	if w.bad {
		return
	}
	for round := 0; round < 3; round++ {
		for _, n := range w.names {
			w.sync(n)
		}
	}
	if w.bad {
		return
	}
	for _, n := range w.names {
		if objIndexesDisagree(w.docs[n]) {
			w.sawDupRestore = true
		}
	}
	if w.rp.GC {
		var all []time.VersionVector
		for _, n := range w.names {
			all = append(all, w.docs[n].VersionVector())
		}
		min := time.MinVersionVector(all...)
		for _, n := range w.names {
			w.docs[n].GarbageCollect(min)
		}
	}
	w.res.AddStat("histories_evaluated", 1)
	var logged []*change.Change
	for _, raw := range w.log {
		if cs, err := decodePack(raw); err == nil {
			logged = append(logged, cs...)
		}
	}
	switch t := c15RestoreDeleteRace(logged, w.undoChanges); {
	case strings.HasPrefix(t, "twice:"):
		w.sawDupRestore = true
	case t != "":
		// F-UNDO-RESTORE-RACE: content verdicts are identified as the recorded finding
		w.race = true
	}
	ref := w.docs["A"].Marshal()
	for _, n := range w.names[1:] {
		if m := w.docs[n].Marshal(); m != ref {
			w.onlyPlacementDiffers = contentBag(w.docs["A"]) == contentBag(w.docs[n]) || foreignOnlyDifference(w.docs["A"], w.docs[n], w.undoers)
			w.viol("replicas-diverged", fmt.Sprintf("after the closing sync rounds%s:\n A shows %s\n %s shows %s", map[bool]string{true: " and collection", false: ""}[w.rp.GC], ref, n, m))
			return
		}
	}
	// a replica fed by the log alone
	fresh := document.New(key.Key("c15-doc"))
	fresh.SetActor(c15Actors[2])
	fresh.SetStatus(document.StatusAttached)
	var all []*change.Change
	for i, raw := range w.log {
		cs, err := decodePack(raw)
		if err != nil {
			w.viol("change-not-decodable", err.Error())
			return
		}
		for _, c := range cs {
			c.SetServerSeq(int64(i + 1))
		}
		all = append(all, cs...)
	}
	var err error
	func() {
		defer func() {
			if x := recover(); x != nil {
				err = fmt.Errorf("PANIC: %v", x)
			}
		}()
		err = fresh.ApplyChangePack(change.NewPack(fresh.Key(), change.NewCheckpoint(int64(len(w.log)), 0), all, nil, nil))
	}()
	if err != nil {
		w.viol("log-not-replayable", fmt.Sprintf("a fresh replica cannot apply the %d logged changes: %v", len(all), err))
		return
	}
	if a, b := canonDoc(w.docs["A"]), canonDoc(fresh); a != b {
		w.onlyPlacementDiffers = contentBag(w.docs["A"]) == contentBag(fresh) || foreignOnlyDifference(w.docs["A"], fresh, w.undoers)
		w.viol("late-replica-differs", fmt.Sprintf("the replicas show %s\na replica built from the log alone shows %s", a, b))
	}
}

// c15RestoreDeleteRace looks in the log for the precondition of recorded finding
// F-UNDO-RESTORE-RACE: an identity-preserving restore (the undo of a deletion: a
// text/tree Edit in restore mode, or an object Set that re-uses an existing
// createdAt) and a deletion of the same target by ANOTHER actor that are
// concurrent by their version vectors. Text and tree targets are the container
// (coarse), object targets the member identity.
func c15RestoreDeleteRace(changes []*change.Change, undoChanges map[string]bool) string {
	type mark struct {
		c      *change.Change
		target string
	}
	var restores, deletes []mark
	// per text/tree container: who edited it, and whether an undo/redo touched it
	type touch struct {
		c *change.Change
	}
	touches := map[string][]touch{}
	undone := map[string]bool{}
	for _, c := range changes {
		byUndo := undoChanges[fmt.Sprintf("%s/%d", c.ID().ActorID().String(), c.ID().ClientSeq())]
		for _, op := range c.Operations() {
			switch o := op.(type) {
			case *operations.Edit, *operations.Style, *operations.TreeEdit, *operations.TreeStyle:
				k := "container:" + o.ParentCreatedAt().Key()
				touches[k] = append(touches[k], touch{c})
				if byUndo {
					undone[k] = true
				}
			}
		}
	}
	for _, c := range changes {
		for _, op := range c.Operations() {
			// every operation also touches its container: a Set that puts a whole container
			// back (a copy taken when it was removed) races with concurrent edits inside it
			if p := op.ParentCreatedAt(); p != nil {
				deletes = append(deletes, mark{c, "elem:" + p.Key()})
			}
			switch o := op.(type) {
			case *operations.Edit:
				t := "text:" + o.ParentCreatedAt().Key()
				switch {
				case o.RestoreMode() == crdt.RestoreModeRestore:
					restores = append(restores, mark{c, t})
				case o.RestoreMode() == crdt.RestoreModeRetombstone:
					deletes = append(deletes, mark{c, t})
				case o.From().ID().Compare(o.To().ID()) != 0 || o.From().RelativeOffset() != o.To().RelativeOffset():
					deletes = append(deletes, mark{c, t})
				}
			case *operations.TreeEdit:
				// trees: a restore or re-tombstone races with ANY concurrent edit of the same
				// tree by another actor (a concurrent insert into a removed-then-restored
				// parent stays hidden on its author only)
				t := "tree:" + o.ParentCreatedAt().Key()
				if o.RestoreMode() != crdt.RestoreModeNone {
					restores = append(restores, mark{c, t})
				}
				deletes = append(deletes, mark{c, t})
			case *operations.TreeStyle:
				deletes = append(deletes, mark{c, "tree:" + o.ParentCreatedAt().Key()})
			case *operations.Style:
				// a style that covers content a peer concurrently restores reaches the
				// restored run on one side only
				deletes = append(deletes, mark{c, "text:" + o.ParentCreatedAt().Key()})
			case *operations.Set:
				if v := o.Value(); v != nil && v.CreatedAt() != nil && v.CreatedAt().Key() != o.ExecutedAt().Key() {
					restores = append(restores, mark{c, "elem:" + v.CreatedAt().Key()})
				}
			case *operations.Remove:
				deletes = append(deletes, mark{c, "elem:" + o.CreatedAt().Key()})
			}
		}
	}
	// the same member identity put back by two different Set operations (F-RESTORE-TWICE)
	seenRestore := map[string]*change.Change{}
	for _, r := range restores {
		if !strings.HasPrefix(r.target, "elem:") {
			continue
		}
		if c0, ok := seenRestore[r.target]; ok && c0 != r.c {
			return "twice:" + r.target
		}
		seenRestore[r.target] = r.c
	}
	hb := func(x, y *change.Change) bool { // x happened before y
		l, ok := y.ID().VersionVector().Get(x.ID().ActorID())
		return ok && l >= x.ID().Lamport()
	}
	for _, r := range restores {
		for _, d := range deletes {
			if r.target != d.target || r.c.ID().ActorID().Compare(d.c.ID().ActorID()) == 0 {
				continue
			}
			if !hb(r.c, d.c) && !hb(d.c, r.c) {
				return r.target
			}
		}
	}
	// a text or tree that an undo/redo edited AND that two actors edited concurrently:
	// what a remote style or edit does to content that is tombstoned at that moment
	// differs per replica (it reaches the content where it is still live), and a later
	// restore brings that difference to the surface even though the restore itself is
	// ordered after both
	for k, ts := range touches {
		if !undone[k] {
			continue
		}
		for i := range ts {
			for j := i + 1; j < len(ts); j++ {
				x, y := ts[i].c, ts[j].c
				if x.ID().ActorID().Compare(y.ID().ActorID()) != 0 && !hb(x, y) && !hb(y, x) {
					return k
				}
			}
		}
	}
	return ""
}

// c15RefersToTombstone: does the newest local change (an undo/redo) hold an array
// operation whose anchor or target is removed (or a dead slot) in its author's document?
func c15RefersToTombstone(d *document.Document) bool {
	cs := d.CreateChangePack().Changes
	if len(cs) == 0 {
		return false
	}
	root := d.InternalDocument().Root()
	dead := func(parent, id *time.Ticket) bool {
		if id == nil || parent == nil {
			return false
		}
		arr, ok := root.FindByCreatedAt(parent).(*crdt.Array)
		if !ok || arr == nil {
			return false
		}
		if id.Key() == arr.CreatedAt().Key() || id.Key() == time.InitialTicket.Key() {
			return false // the head
		}
		for _, n := range arr.AllRGANodes() {
			if n.PositionCreatedAt() != nil && n.PositionCreatedAt().Key() == id.Key() {
				return n.IsRemoved()
			}
			if n.Element() != nil && n.Element().CreatedAt().Key() == id.Key() {
				return n.IsRemoved()
			}
		}
		return true // not there at all
	}
	for _, op := range cs[len(cs)-1].Operations() {
		switch o := op.(type) {
		case *operations.Add:
			if dead(o.ParentCreatedAt(), o.PrevCreatedAt()) {
				return true
			}
		case *operations.Move:
			if dead(o.ParentCreatedAt(), o.PrevCreatedAt()) || dead(o.ParentCreatedAt(), o.CreatedAt()) {
				return true
			}
		case *operations.ArraySet:
			if dead(o.ParentCreatedAt(), o.CreatedAt()) {
				return true
			}
		}
	}
	return false
}

// c15PlacedNextToTombstone: did the newest local change (an undo/redo) insert or
// move an array element so that a physical neighbour of it is a tombstone?
func c15PlacedNextToTombstone(d *document.Document) bool {
	cs := d.CreateChangePack().Changes
	if len(cs) == 0 {
		return false
	}
	last := cs[len(cs)-1]
	for _, op := range last.Operations() {
		var parent, elem *time.Ticket
		switch o := op.(type) {
		case *operations.Add:
			parent, elem = o.ParentCreatedAt(), o.Value().CreatedAt()
		case *operations.Move:
			parent, elem = o.ParentCreatedAt(), o.CreatedAt()
		case *operations.ArraySet:
			parent, elem = o.ParentCreatedAt(), o.Value().CreatedAt()
		default:
			continue
		}
		arr, ok := d.InternalDocument().Root().FindByCreatedAt(parent).(*crdt.Array)
		if !ok || arr == nil {
			continue
		}
		nodes := arr.AllRGANodes()
		for i, n := range nodes {
			if n.Element() == nil || n.Element().CreatedAt().Key() != elem.Key() {
				continue
			}
			if (i+1 < len(nodes) && nodes[i+1].IsRemoved()) || (i > 0 && nodes[i-1].IsRemoved()) {
				return true
			}
		}
	}
	return false
}

// ---- exhaustive ----

var c15Families = []string{"text", "array", "tree", "object"}

const c15Chunks = 8

// configs: family x gc x clear
var c15Skews = []string{"", "A", "B"}

var c15ExhCases = len(c15Families) * 2 * 2 * c15Chunks

func c15IsDelete(e gen.Edit) bool {
	switch e.Op {
	case "arr.del", "obj.del":
		return true
	case "txt.edit":
		return e.S == "" && e.J > e.I
	case "tree.edit":
		return len(e.T) == 0 && e.J > e.I
	}
	return false
}

// c15Pick reduces the state's alphabet to k edits spread over it, always
// including a deletion when there is one (undo of a deletion is where identity
// restore, re-ticketing and collection meet).
func c15Pick(all []gen.Edit, k int) []gen.Edit {
	if len(all) <= k {
		return all
	}
	out := make([]gen.Edit, 0, k)
	hasDel := false
	for i := 0; i < k; i++ {
		e := all[i*len(all)/k]
		hasDel = hasDel || c15IsDelete(e)
		out = append(out, e)
	}
	if !hasDel {
		for _, e := range all {
			if c15IsDelete(e) {
				out[len(out)-1] = e
				break
			}
		}
	}
	return out
}

func (w *c15Worker) runExhaustive(res *runner.CaseResult, idx int) {
	chunk := idx % c15Chunks
	cfg := idx / c15Chunks
	family := c15Families[cfg%len(c15Families)]
	gc := (cfg/len(c15Families))%2 == 0
	clear := (cfg/len(c15Families)/2)%2 == 0
	skew := "" // the exhaustive family moves the clocks with "tick" steps instead
	maxLen, k, maxUndo := 5, 3, 2
	if w.tier == "thorough" {
		maxLen, k, maxUndo = 6, 3, 3
	}
	if family == "array" && w.tier != "thorough" {
		k = 2
	}
	rp := c15Replay{Family: "exhaustive-" + family, Seed: w.seed, Idx: idx, GC: gc, Clear: clear, Skew: skew, N: 2, Base: c14Base(family)}
	ordinal := 0
	stop := false
	var rec func(prefix []c15Step)
	rec = func(prefix []c15Step) {
		if stop {
			return
		}
		if len(prefix) == 2 {
			ordinal++
			if ordinal%c15Chunks != chunk {
				return
			}
		}
		world := newC15World(res, rp)
		edits := map[string]int{}
		undos := 0
		for _, st := range prefix {
			if !world.do(st) {
				return // inapplicable prefix (or already reported)
			}
			if st.T == "edit" {
				edits[st.W]++
			}
			if st.T == "undo" || st.T == "redo" {
				undos++
			}
		}
		// expansion candidates are read before the oracle mutates the world
		var next []c15Step
		if len(prefix) < maxLen {
			for _, n := range world.names {
				d := world.docs[n]
				if edits[n] < 3 {
					for _, e := range c15Pick(c14Alphabet(family, model.FromDoc(d.RootObject())), k) {
						e := e
						next = append(next, c15Step{W: n, T: "edit", E: &e})
					}
				}
				if undos < maxUndo {
					if d.CanUndo() {
						next = append(next, c15Step{W: n, T: "undo"})
					}
					if d.CanRedo() {
						next = append(next, c15Step{W: n, T: "redo"})
					}
				}
				// a sync is only a new event when something is pending or unseen
				if d.HasLocalChanges() || world.cursor[n] < len(world.log) {
					next = append(next, c15Step{W: n, T: "sync"})
				}
			}
			if len(prefix) > 0 && (prefix[len(prefix)-1].T == "round" || prefix[len(prefix)-1].T == "lead") && world.ticks == 0 {
				for _, n := range world.names {
					next = append(next, c15Step{W: n, T: "tick"})
				}
			}
			if len(prefix) > 0 && prefix[len(prefix)-1].T != "round" && prefix[len(prefix)-1].T != "lead" {
				next = append(next, c15Step{W: "*", T: "round"})
				if gc {
					for _, n := range world.names {
						next = append(next, c15Step{W: n, T: "lead"})
					}
				}
			}
		}
		if os.Getenv("VERIF_C15_FIND") != "" {
			var ps []string
			for _, st := range prefix {
				ps = append(ps, st.String())
			}
			if strings.HasPrefix(os.Getenv("VERIF_C15_FIND"), strings.Join(ps, "; ")) && len(ps) > 0 {
				var ns []string
				for _, st := range next {
					ns = append(ns, st.String())
				}
				fmt.Printf("FIND cfg=%s gc=%v clear=%v prefix=[%s] next=%v\n", family, gc, clear, strings.Join(ps, "; "), ns)
			}
		}
		if undos > 0 && (len(prefix) >= 3 || chunk == 0) {
			world.finish()
			if world.undone > 0 && world.pulled > 0 {
				res.AddStat("nontrivial_histories", 1)
			}
			if world.bad && unattributed(res) >= 3 {
				stop = true
			}
		}
		for _, st := range next {
			rec(append(append([]c15Step(nil), prefix...), st))
		}
	}
	rec(nil)
	res.Hash = fmt.Sprintf("exh-%s-%v-%v-%s-%d", family, gc, clear, skew, chunk)
	res.Nontrivial = res.Stats["nontrivial_histories"] > 0
	res.AddSet("configurations", fmt.Sprintf("exhaustive-%s gc=%v cleared=%v clock-skew=%q", family, gc, clear, skew))
	b, _ := json.Marshal(map[string]any{"family": "exhaustive-" + family, "gc": gc, "cleared": clear, "chunk": chunk, "max_len": maxLen, "alphabet_per_state": k, "histories_in_chunk": res.Stats["histories_evaluated"]})
	res.Sample = b
}

// ---- random ----

func (w *c15Worker) runRandom(res *runner.CaseResult, idx int) {
	rng := caseRng(w.seed^0xc15, idx)
	prof := c07Profile(rng)
	prof.NoDedup = true
	prof.NoArrSet = true
	rp := c15Replay{Family: "random", Seed: w.seed, Idx: idx, GC: rng.Intn(4) != 0, Clear: rng.Intn(2) == 0, N: 2 + rng.Intn(2), Base: gen.InitEdits()}
	rp.Skew = c15Skews[idx%len(c15Skews)]
	world := newC15World(res, rp)
	var vet Vetoed
	guard := makeGuardDoc(Guards{InsertBeforeTombstone: rp.GC}, &vet)
	n := 10 + rng.Intn(40)
	if w.tier == "thorough" {
		n = 10 + rng.Intn(80)
	}
	for i := 0; i < n && !world.bad; i++ {
		name := world.names[rng.Intn(len(world.names))]
		d := world.docs[name]
		x := rng.Intn(100)
		switch {
		case x < 45:
			conts := gen.Scan(d.Root().Object, prof.MaxDepth)
			e := prof.Next(rng, conts, name)
			if !guard(d, &e) {
				continue
			}
			if world.do(c15Step{W: name, T: "edit", E: &e}) {
				res.AddSet("ops", e.Op)
			}
		case x < 62:
			for k := 1 + rng.Intn(3); k > 0 && world.do(c15Step{W: name, T: "undo"}); k-- {
			}
		case x < 72:
			for k := 1 + rng.Intn(3); k > 0 && world.do(c15Step{W: name, T: "redo"}); k-- {
			}
		default:
			world.do(c15Step{W: name, T: "sync"})
		}
	}
	world.finish()
	res.AddStat("guard_vetoes_insert_before_tombstone", int64(vet.InsertBeforeTombstone))
	res.Hash = runner.HashOf(world.steps)
	res.Nontrivial = world.undone > 0 && world.pulled > 0
	res.AddSet("configurations", fmt.Sprintf("random n=%d gc=%v cleared=%v", rp.N, rp.GC, rp.Clear))
	if idx%499 == 0 {
		var prog []string
		for i, st := range world.steps {
			if i >= 30 {
				break
			}
			prog = append(prog, st.String())
		}
		b, _ := json.Marshal(map[string]any{"family": "random", "replicas": rp.N, "gc": rp.GC, "first_steps": prog})
		res.Sample = b
	}
}

func (w *c15Worker) Run(idx int) runner.CaseResult {
	res := runner.CaseResult{Case: fmt.Sprintf("c15-%d", idx)}
	if idx < c15ExhCases {
		w.runExhaustive(&res, idx)
	} else {
		w.runRandom(&res, idx)
	}
	return res
}

func (w *c15Worker) Replay(data json.RawMessage) runner.CaseResult {
	res := runner.CaseResult{Case: "replay"}
	var rp c15Replay
	if err := json.Unmarshal(data, &rp); err != nil {
		res.Inconclusive = err.Error()
		return res
	}
	world := newC15World(&res, rp)
	for _, st := range rp.Steps {
		world.do(st)
	}
	world.finish()
	return res
}

var _ = rand.Int
