package props

import (
	"context"
	"encoding/json"
	"errors"
	"fmt"
	"math/rand"
	"runtime"
	"sort"
	"strings"
	"sync"

	"github.com/yorkie-team/yorkie/pkg/document"

	"verif/internal/boot"
	"verif/internal/faultdb"
	"verif/internal/gen"
	"verif/internal/replica"
	"verif/internal/runner"
	"verif/internal/sim"
)

type c05 struct{}

func init() { register(c05{}) }

func (c05) ID() string    { return "C05" }
func (c05) Level() string { return "fault_enumeration" }
func (c05) Rule() string {
	return "case = one short generated history (2-3 replicas; counter increases, text inserts, array adds, so that a double apply or a " +
		"loss is visible in content; snapshot threshold in {never, 3}). A dry run records, per request, the ordered storage calls it " +
		"makes (Backend.DB decorator, calls attributed by stack to the RPC handler or to the background snapshot goroutine). Then " +
		"EVERY single fault is enumerated: request r x storage call c x {error before the call, error after the call took effect}, " +
		"plus 'response lost' for every push-pull, each followed by the client (i) re-sending the identical pack or (ii) making " +
		"more edits and syncing again. Oracle per faulted run: the retry succeeds once the fault is cleared; the log holds no " +
		"(actor, lamport) twice; counters / text characters / array elements equal the fault-free twin; replicas converge. " +
		"Non-trivial = the injected fault actually fired. Distinct = (history hash, request, call index, mode, retry flavour). sdk family: the real client.Client re-syncing after injected storage faults; every edit a unique array element; oracle: every id exactly once everywhere."
}
func (c05) Assumptions() []string {
	return []string{
		"memdb backend: nothing to recover after a process crash; 'server failed part-way' = the request failing at a storage call, 'client crashed and resent' = response lost + resend",
		"single fault per run (thorough adds a second fault on the retry)",
		"faults are injected at the database.Database boundary only",
	}
}

// the first c05Exh(tier) cases enumerate fault points with the replica driver; the rest is
// the sdk family (real client.Client, random fault points)
func c05Exh(tier string) int {
	if tier == "thorough" {
		return 400
	}
	return 36
}

func (c05) NumCases(tier string, _ int64) int {
	if tier == "thorough" {
		return c05Exh(tier) + 400 + c05Inflight(tier)
	}
	return c05Exh(tier) + 32 + c05Inflight(tier)
}

func c05Inflight(string) int { return 3 * c05InflightStalls }
func (c05) Exhaustive(string) bool { return false }
func (c05) Floors(string) []runner.Floor {
	return []runner.Floor{{Stat: "faults_fired", Min: 500}, {Stat: "responses_lost", Min: 50}, {Stat: "sdk_faults_fired", Min: 100}, {Stat: "inflight_cases_with_a_stalled_original", Min: 40}}
}

// faultHook implements faultdb.Hook.
type faultHook struct {
	mu      sync.Mutex
	req     int      // current request number (set by the driver)
	calls   []string // calls of the current request (record mode), "h:Method" or "bg:Method"
	armReq  int      // request to fault (-1 = none)
	armIdx  int
	armMode string // before | after
	fired   string
	idx     int
}

var errInjected = errors.New("verif: injected storage fault")

func classifyCaller() string {
	pcs := make([]uintptr, 48)
	n := runtime.Callers(4, pcs)
	frames := runtime.CallersFrames(pcs[:n])
	cls := ""
	for {
		f, more := frames.Next()
		switch {
		case strings.Contains(f.Function, "packs.storeSnapshot"), strings.Contains(f.Function, "packs.storeRevision"):
			return "bg"
		case strings.Contains(f.Function, "background.(*Background).Go"):
			if cls == "" {
				cls = "bg"
			}
		case strings.Contains(f.Function, "rpc.(*yorkieServer)"), strings.Contains(f.Function, "rpc.(*clusterServer)"):
			return "h"
		case strings.Contains(f.Function, "interceptors."):
			if cls == "" {
				cls = "h"
			}
		}
		if !more {
			break
		}
	}
	return cls
}

func (h *faultHook) Before(m string) error {
	cls := classifyCaller()
	if cls == "" {
		return nil
	}
	h.mu.Lock()
	defer h.mu.Unlock()
	name := cls + ":" + m
	i := h.idx
	h.idx++
	h.calls = append(h.calls, name)
	if h.armReq == h.req && h.armIdx == i && h.armMode == "before" && h.fired == "" {
		h.fired = name
		return errInjected
	}
	return nil
}

func (h *faultHook) After(m string, err error) error {
	cls := classifyCaller()
	if cls == "" {
		return nil
	}
	h.mu.Lock()
	defer h.mu.Unlock()
	i := h.idx - 1 // the matching Before incremented it (sequential within a request goroutine)
	if h.armReq == h.req && h.armIdx == i && h.armMode == "after" && h.fired == "" && err == nil {
		h.fired = cls + ":" + m
		return errInjected
	}
	return nil
}

func (h *faultHook) begin(req int) {
	h.mu.Lock()
	h.req = req
	h.idx = 0
	h.calls = nil
	h.mu.Unlock()
}

func (h *faultHook) snapshotCalls() []string {
	h.mu.Lock()
	defer h.mu.Unlock()
	return append([]string(nil), h.calls...)
}

type c05Worker struct {
	*simWorker
	fdb  *faultdb.DB
	hook *faultHook
}

func (c05) NewWorker(tier string, seed int64) (runner.Worker, error) {
	sw, err := newSimWorker(tier, seed, boot.Options{})
	if err != nil {
		return nil, err
	}
	w := &c05Worker{simWorker: sw, hook: &faultHook{armReq: -1}}
	w.fdb = faultdb.Wrap(sw.env.BE.DB)
	sw.env.BE.DB = w.fdb
	w.fdb.SetHook(w.hook)
	return w, nil
}

// c05History builds the steps (all concrete) of one case.
func c05History(seed int64, idx int) sim.History {
	rng := caseRng(seed^0xc05, idx)
	n := 2 + rng.Intn(2)
	h := sim.History{Cfg: sim.WorldCfg{Snap: []int64{0, 0, 3}[rng.Intn(3)]}}
	add := func(s sim.Step) { h.Steps = append(h.Steps, s) }
	add(sim.Step{T: "attach", R: 0})
	add(sim.Step{T: "edit", R: 0, E: []gen.Edit{
		{Op: "obj.set", K: "cnt", V: &gen.Val{T: "cntl"}},
		{Op: "obj.set", K: "txt", V: &gen.Val{T: "text"}},
		{Op: "obj.set", K: "arr", V: &gen.Val{T: "arr"}},
	}})
	add(sim.Step{T: "sync", R: 0})
	for i := 1; i < n; i++ {
		add(sim.Step{T: "attach", R: i})
	}
	uid := 0
	edit := func(r int) sim.Step {
		uid++
		switch rng.Intn(3) {
		case 0:
			return sim.Step{T: "edit", R: r, E: []gen.Edit{{Op: "cnt.inc", Path: []string{"cnt"}, N: int64(1 + rng.Intn(5))}}}
		case 1:
			return sim.Step{T: "edit", R: r, E: []gen.Edit{{Op: "txt.edit", Path: []string{"txt"}, I: 0, J: 0, S: string(rune('a' + uid%26))}}}
		default:
			return sim.Step{T: "edit", R: r, E: []gen.Edit{{Op: "arr.add", Path: []string{"arr"}, V: &gen.Val{T: "int", I: int64(uid)}}}}
		}
	}
	steps := 6 + rng.Intn(6)
	for s := 0; s < steps; s++ {
		r := rng.Intn(n)
		k := 1 + rng.Intn(3)
		for i := 0; i < k; i++ {
			add(edit(r))
		}
		if rng.Intn(8) == 0 {
			add(sim.Step{T: "sync", R: r, PushOnly: true})
		} else {
			add(sim.Step{T: "sync", R: r})
		}
		if rng.Intn(10) == 0 && n > 2 && r != 0 {
			add(sim.Step{T: "detach", R: r})
			add(sim.Step{T: "attach", R: r})
		}
	}
	return h
}

// c05ExtraEdit is what the "edits" retry flavour does before syncing again.
func c05ExtraEdit(r int) sim.Step {
	return sim.Step{T: "edit", R: r, E: []gen.Edit{
		{Op: "cnt.inc", Path: []string{"cnt"}, N: 100},
		{Op: "txt.edit", Path: []string{"txt"}, I: 0, J: 0, S: "#"},
	}}
}

// faultSpec describes the single fault of one run.
type faultSpec struct {
	Step   int    `json:"step"`   // index into history steps of the faulted request
	Call   int    `json:"call"`   // storage call index inside that request (-1 = response lost)
	Mode   string `json:"mode"`   // before | after | lost
	Retry  string `json:"retry"`  // identical | edits
	Method string `json:"method"` // name observed in the dry run
}

type c05Replay struct {
	H sim.History `json:"h"`
	F faultSpec   `json:"f"`
}

func contentDigest(d *document.Document) string {
	root := d.RootObject()
	var parts []string
	for k, el := range root.Members() {
		m := el.Marshal()
		switch k {
		case "txt":
			// multiset of characters
			rs := []rune(d.Root().GetText("txt").String())
			sort.Slice(rs, func(i, j int) bool { return rs[i] < rs[j] })
			m = string(rs)
		case "arr":
			var es []string
			a := d.Root().GetArray("arr")
			for i := 0; i < a.Len(); i++ {
				es = append(es, a.Get(i).Marshal())
			}
			sort.Strings(es)
			m = strings.Join(es, ",")
		}
		parts = append(parts, k+"="+m)
	}
	sort.Strings(parts)
	return strings.Join(parts, " ")
}

// execute runs the history with an optional fault; it returns the final digest
// of replica 0 (after quiescence), the world and whether the fault fired.
func (w *c05Worker) execute(h sim.History, f *faultSpec, tag string, recCalls map[int][]string) (string, *sim.World, string, []string) {
	proj, err := w.project(h.Cfg.Snap)
	if err != nil {
		return "", nil, "", []string{"project: " + err.Error()}
	}
	world := sim.NewWorld(w.env, proj, h.Cfg, tag)
	var problems []string
	reqNo := 0
	w.hook.mu.Lock()
	w.hook.armReq, w.hook.fired = -1, ""
	w.hook.mu.Unlock()
	fired := ""
	ctx := context.Background()
	for si, st := range h.Steps {
		isReq := st.T == "sync" || st.T == "attach" || st.T == "detach"
		if !isReq {
			world.Exec(st)
			continue
		}
		reqNo++
		w.hook.begin(reqNo)
		if f == nil || f.Step != si {
			world.Exec(st)
			w.env.WaitIdle()
			if recCalls != nil {
				recCalls[si] = w.hook.snapshotCalls()
			}
			continue
		}
		// the faulted request
		r := world.Rep(st.R)
		if f.Mode != "lost" {
			w.hook.mu.Lock()
			w.hook.armReq, w.hook.armIdx, w.hook.armMode = reqNo, f.Call, f.Mode
			w.hook.mu.Unlock()
		}
		var reqErr error
		switch st.T {
		case "sync":
			if err := r.SyncBegin(st.PushOnly); err != nil {
				problems = append(problems, "syncBegin: "+err.Error())
				break
			}
			reqErr = r.SyncSend(ctx)
			w.env.WaitIdle()
			w.hook.mu.Lock()
			fired = w.hook.fired
			w.hook.armReq = -1
			w.hook.mu.Unlock()
			if f.Mode == "lost" {
				fired = "response-lost"
				reqErr = errors.New("response lost")
			}
			if reqErr == nil {
				// the fault hit a call whose failure the server tolerates (or a background call)
				if fired != "" {
					fired = "tolerated:" + fired
				}
				if err := r.SyncEnd(); err != nil {
					problems = append(problems, "apply after tolerated fault: "+err.Error())
				}
				break
			}
			// the client did not get a response
			if f.Retry == "edits" {
				r.SyncDrop()
				world.Exec(c05ExtraEdit(st.R))
				var err error
				for try := 0; try < 2; try++ {
					if err = r.Sync(ctx, false); err == nil {
						break
					}
				}
				w.env.WaitIdle()
				if err != nil {
					problems = append(problems, fmt.Sprintf("retry-fails: sync after fault %s at %s still fails: %v", f.Mode, fired, err))
				}
			} else {
				var err error
				for try := 0; try < 2; try++ {
					if err = r.SyncSend(ctx); err == nil {
						break
					}
				}
				w.env.WaitIdle()
				if err != nil {
					problems = append(problems, fmt.Sprintf("retry-fails: identical retry after fault %s at %s still fails: %v", f.Mode, fired, err))
					r.SyncDrop()
				} else if err := r.SyncEnd(); err != nil {
					problems = append(problems, "apply retried response: "+err.Error())
				}
			}
		default:
			// attach / detach: the client calls the same API again
			world.Exec(st)
			w.env.WaitIdle()
			w.hook.mu.Lock()
			fired = w.hook.fired
			w.hook.armReq = -1
			w.hook.mu.Unlock()
			if len(world.Fail) > 0 {
				// expected: the request failed; clear and retry
				world.Fail = nil
				world.Dead = false
				var again sim.Step = st
				for try := 0; try < 2; try++ {
					world.Exec(again)
					w.env.WaitIdle()
					if len(world.Fail) == 0 {
						break
					}
					if try == 0 {
						world.Fail = nil
						world.Dead = false
					}
				}
				if len(world.Fail) > 0 {
					problems = append(problems, fmt.Sprintf("retry-fails: %s after fault %s at %s still fails: %s", st.T, f.Mode, fired, world.Fail[0].Detail))
					world.Fail = nil
					world.Dead = false
				}
			}
		}
	}
	w.hook.begin(0)
	world.OnQuiesce = func(wd *sim.World, att []*replica.Replica) {
		if ok, d := sim.CompareContent(att); !ok {
			problems = append(problems, "divergence after the retry:\n"+d)
		}
	}
	world.Quiesce()
	for _, fl := range world.Fail {
		problems = append(problems, fl.Kind+": "+fl.Detail)
	}
	// duplicates in the log
	if log, err := world.ServerLog(); err == nil {
		seen := map[string]int64{}
		for _, row := range log {
			if row.Lamport == 0 {
				continue
			}
			k := fmt.Sprintf("%s/%d", row.ActorID, row.Lamport)
			if prev, ok := seen[k]; ok {
				problems = append(problems, fmt.Sprintf("duplicate-change: serverSeq %d and %d store the same change (actor %s, lamport %d, clientSeq %d)", prev, row.ServerSeq, row.ActorID, row.Lamport, row.ClientSeq))
				break
			}
			seen[k] = row.ServerSeq
		}
	}
	digest := ""
	if att := world.Attached(); len(att) > 0 {
		digest = contentDigest(att[0].Doc)
	}
	return digest, world, fired, problems
}

func (w *c05Worker) runFault(res *runner.CaseResult, h sim.History, f faultSpec, want string, wantEdits func(si int) string) {
	got, _, fired, problems := w.execute(h, &f, "c05f", nil)
	if strings.HasPrefix(fired, "tolerated:") {
		// the request succeeded in spite of the fault: the client never retried
		fired = strings.TrimPrefix(fired, "tolerated:")
		f.Retry = "none"
		res.AddStat("faults_tolerated_by_server", 1)
	}
	if fired == "" {
		res.AddStat("faults_not_reached", 1)
		return
	}
	res.AddStat("faults_fired", 1)
	if f.Mode == "lost" {
		res.AddStat("responses_lost", 1)
	}
	res.AddSet("fault_points", f.Mode+"@"+strings.TrimPrefix(fired, "h:"))
	wantD := want
	if f.Retry == "edits" && wantEdits != nil {
		wantD = wantEdits(f.Step)
	}
	rep := c05Replay{H: h, F: f}
	judged := h.Steps[f.Step].T == "sync"
	// a stored duplicate is the primary symptom; divergence / failing syncs in the
	// same run are its consequences and are not reported separately
	for _, p := range problems {
		if strings.HasPrefix(p, "duplicate-change") {
			problems = []string{p}
			break
		}
	}
	for _, p := range problems {
		kind := p
		if i := strings.Index(p, ":"); i > 0 {
			kind = p[:i]
		}
		if !judged && (kind == "retry-fails" || kind == "attach-failed" || kind == "detach-failed") {
			// Re-issuing Attach/Detach after a fully processed but unanswered one is
			// refused by the lifecycle state machine (C11); the property speaks of
			// sync requests. Counted, not judged.
			res.AddStat("lifecycle_retry_refused_not_judged", 1)
			return
		}
		ident := fmt.Sprintf("%s@%s|%s|%s", f.Mode, fired, h.Steps[f.Step].T, kind)
		res.AddSet("violating_points", ident+" | "+h.Steps[f.Step].T+" | retry="+f.Retry+" | "+kind)
		res.Violate(kind, fmt.Sprintf("fault %s at %s (request step %d, retry=%s): %s", f.Mode, fired, f.Step, f.Retry, p), ident, rep)
	}
	if len(problems) == 0 && wantD != "" && got != wantD {
		ident := fmt.Sprintf("%s@%s|%s|%s", f.Mode, fired, h.Steps[f.Step].T, "content-differs-from-fault-free-run")
		res.Violate("content-differs-from-fault-free-run", fmt.Sprintf("fault %s at %s (request step %d, retry=%s):\n got  %s\n want %s", f.Mode, fired, f.Step, f.Retry, got, wantD), ident, rep)
	}
}

func (w *c05Worker) Run(idx int) runner.CaseResult {
	res := runner.CaseResult{Case: fmt.Sprintf("c05-%d", idx)}
	if first := (c05{}).NumCases(w.tier, 0) - c05Inflight(w.tier); idx >= first {
		w.runInflight(&res, idx-first)
		return res
	}
	if idx >= c05Exh(w.tier) {
		w.runSDK(&res, idx, nil)
		return res
	}
	h := c05History(w.seed, idx)
	calls := map[int][]string{}
	want, _, _, problems := w.execute(h, nil, "c05d", calls)
	if len(problems) > 0 {
		res.Inconclusive = "fault-free run is not clean: " + problems[0]
		return res
	}
	res.Hash = runner.HashOf(h.Steps)
	editsCache := map[int]string{}
	wantEdits := func(si int) string {
		if d, ok := editsCache[si]; ok {
			return d
		}
		h2 := sim.History{Cfg: h.Cfg}
		h2.Steps = append(h2.Steps, h.Steps[:si+1]...)
		h2.Steps = append(h2.Steps, c05ExtraEdit(h.Steps[si].R), sim.Step{T: "sync", R: h.Steps[si].R})
		h2.Steps = append(h2.Steps, h.Steps[si+1:]...)
		d, _, _, pr := w.execute(h2, nil, "c05e", nil)
		if len(pr) > 0 {
			d = ""
		}
		editsCache[si] = d
		return d
	}
	rng := rand.New(rand.NewSource(w.seed*31 + int64(idx)))
	n := 0
	var reqSteps []int
	for si := range h.Steps {
		if _, ok := calls[si]; ok {
			reqSteps = append(reqSteps, si)
		}
	}
	for _, si := range reqSteps {
		for ci, m := range calls[si] {
			for _, mode := range []string{"before", "after"} {
				retry := "identical"
				if h.Steps[si].T == "sync" && rng.Intn(3) == 0 {
					retry = "edits"
				}
				w.runFault(&res, h, faultSpec{Step: si, Call: ci, Mode: mode, Retry: retry, Method: m}, want, wantEdits)
				n++
			}
		}
		if h.Steps[si].T == "sync" {
			for _, retry := range []string{"identical", "edits"} {
				w.runFault(&res, h, faultSpec{Step: si, Call: -1, Mode: "lost", Retry: retry}, want, wantEdits)
				n++
			}
		}
	}
	res.AddStat("fault_runs", int64(n))
	res.AddStat("requests_enumerated", int64(len(reqSteps)))
	res.Nontrivial = res.Stats["faults_fired"] > 0
	if idx%7 == 0 || len(res.Viol) > 0 {
		res.Sample = sampleOf(h, map[string]any{"calls_of_first_sync": calls[2], "fault_runs": n})
	}
	return res
}

func (w *c05Worker) Replay(data json.RawMessage) runner.CaseResult {
	res := runner.CaseResult{Case: "replay"}
	var fam struct {
		Family string `json:"family"`
		N      int    `json:"n"`
	}
	if json.Unmarshal(data, &fam) == nil && fam.Family == "inflight" {
		w.runInflight(&res, fam.N)
		return res
	}
	if json.Unmarshal(data, &fam) == nil && fam.Family == "sdk" {
		var sr c05sdkReplay
		if err := json.Unmarshal(data, &sr); err != nil {
			res.Inconclusive = err.Error()
			return res
		}
		w.runSDK(&res, sr.Idx, &sr)
		return res
	}
	var rp c05Replay
	if err := json.Unmarshal(data, &rp); err != nil {
		res.Inconclusive = err.Error()
		return res
	}
	want, _, _, problems := w.execute(rp.H, nil, "c05d", nil)
	if len(problems) > 0 {
		res.Inconclusive = "fault-free run is not clean: " + problems[0]
		return res
	}
	w.runFault(&res, rp.H, rp.F, want, func(si int) string {
		h2 := sim.History{Cfg: rp.H.Cfg}
		h2.Steps = append(h2.Steps, rp.H.Steps[:si+1]...)
		h2.Steps = append(h2.Steps, c05ExtraEdit(rp.H.Steps[si].R), sim.Step{T: "sync", R: rp.H.Steps[si].R})
		h2.Steps = append(h2.Steps, rp.H.Steps[si+1:]...)
		d, _, _, pr := w.execute(h2, nil, "c05e", nil)
		if len(pr) > 0 {
			return ""
		}
		return d
	})
	return res
}
