package props

import (
	"os"
	"strings"
	"unicode/utf16"

	"github.com/yorkie-team/yorkie/pkg/document"
	"github.com/yorkie-team/yorkie/pkg/document/crdt"
	"github.com/yorkie-team/yorkie/pkg/document/json"
	"github.com/yorkie-team/yorkie/pkg/document/time"

	"verif/internal/gen"
	"verif/internal/sim"
)

// Guards fence off call sites of recorded known findings (DESIGN §1.3): the
// random generators do not emit a step that would enter one of them, so that
// random exploration cannot re-find a listed defect in another disguise. Each
// guard is a predicate over the REAL state of the generating replica.
type Guards struct {
	// ArrSetMoved (finding F-ARRSET-MOVED): Array.Set*(idx) on an element that
	// was moved before; the replacement lands in the element's original slot.
	ArrSetMoved bool
	// InsertBeforeTombstone (finding F-RGA-PURGE): an insert (text / array /
	// tree) whose anchor's physical successor is a tombstone on the author's
	// replica. Only relevant when GC is on.
	InsertBeforeTombstone bool
}

// Vetoed counts what the guards suppressed (reported as coverage.guards).
type Vetoed struct {
	ArrSetMoved, InsertBeforeTombstone int64
}

func makeGuard(g Guards, v *Vetoed) func(w *sim.World, ri int, e *gen.Edit) bool {
	gd := makeGuardDoc(g, v)
	return func(w *sim.World, ri int, e *gen.Edit) bool {
		r := w.Reps[ri]
		if r.Doc == nil {
			return true
		}
		return gd(r.Doc, e)
	}
}

// makeGuardDoc is makeGuard for a bare Document.
func makeGuardDoc(g Guards, v *Vetoed) func(d *document.Document, e *gen.Edit) bool {
	// VERIF_UNFENCED names fences to switch off ("rga", "arrset"); a tooling switch used
	// once to harvest the pinned witnesses of the recorded findings, never set by a
	// registered command.
	if u := os.Getenv("VERIF_UNFENCED"); u != "" {
		if strings.Contains(u, "rga") {
			g.InsertBeforeTombstone = false
		}
		if strings.Contains(u, "arrset") {
			g.ArrSetMoved = false
		}
	}
	return func(d *document.Document, e *gen.Edit) bool {
		root := d.Root()
		c, err := gen.Resolve(root, e.Path)
		if err != nil {
			return true
		}
		switch e.Op {
		case "arr.set":
			a, ok := c.(*json.Array)
			if !ok || e.I >= a.Len() {
				return true
			}
			if g.ArrSetMoved && arrElemMoved(a, e.I) {
				v.ArrSetMoved++
				return false
			}
			if g.InsertBeforeTombstone && arrSuccessorDead(a, arrPosOfIndex(a, e.I)) {
				v.InsertBeforeTombstone++
				return false
			}
		case "arr.add", "arr.last":
			a, ok := c.(*json.Array)
			if !ok {
				return true
			}
			if g.InsertBeforeTombstone && arrSuccessorDead(a, arrLastLive(a)) {
				v.InsertBeforeTombstone++
				return false
			}
		case "arr.ins", "arr.move":
			a, ok := c.(*json.Array)
			if !ok || e.I >= a.Len() {
				return true
			}
			if g.InsertBeforeTombstone && arrSuccessorDead(a, arrPosOfIndex(a, e.I)) {
				v.InsertBeforeTombstone++
				return false
			}
		case "arr.before":
			a, ok := c.(*json.Array)
			if !ok || e.I >= a.Len() {
				return true
			}
			// the anchor is the live predecessor of element I (or the head)
			prev := -1
			if e.I > 0 {
				prev = arrPosOfIndex(a, e.I-1)
			}
			if g.InsertBeforeTombstone && arrSuccessorDead(a, prev) {
				v.InsertBeforeTombstone++
				return false
			}
		case "arr.front":
			a, ok := c.(*json.Array)
			if !ok {
				return true
			}
			if g.InsertBeforeTombstone && arrSuccessorDead(a, -1) {
				v.InsertBeforeTombstone++
				return false
			}
		case "txt.edit":
			t, ok := c.(*json.Text)
			if !ok || e.S == "" {
				return true
			}
			if g.InsertBeforeTombstone && textInsertBeforeTombstone(t, e.I) {
				v.InsertBeforeTombstone++
				return false
			}
		case "tree.edit":
			t, ok := c.(*json.Tree)
			if !ok || len(e.T) == 0 {
				return true
			}
			if g.InsertBeforeTombstone && treeInsertBeforeTombstone(t, e.I) {
				v.InsertBeforeTombstone++
				return false
			}
		}
		return true
	}
}

func arrElemMoved(a *json.Array, idx int) bool {
	el := a.Get(idx)
	if el == nil {
		return false
	}
	pos, err := a.Array.PosCreatedAt(el.CreatedAt())
	if err != nil {
		return false
	}
	return pos.Key() != el.CreatedAt().Key()
}

// arrPosOfIndex returns the physical index (in AllRGANodes) of the position
// node that holds the idx-th live element, or -2 if not found.
func arrPosOfIndex(a *json.Array, idx int) int {
	live := -1
	for i, n := range a.Array.AllRGANodes() {
		if !n.IsRemoved() {
			live++
			if live == idx {
				return i
			}
		}
	}
	return -2
}

func arrLastLive(a *json.Array) int {
	last := -1
	for i, n := range a.Array.AllRGANodes() {
		if !n.IsRemoved() {
			last = i
		}
	}
	return last
}

// arrSuccessorDead: phys is the physical index of the anchor (-1 = dummy head).
func arrSuccessorDead(a *json.Array, phys int) bool {
	if phys == -2 {
		return false
	}
	nodes := a.Array.AllRGANodes()
	if phys+1 >= len(nodes) {
		return false
	}
	return nodes[phys+1].IsRemoved()
}

func textInsertBeforeTombstone(t *json.Text, at int) bool {
	from, _, err := t.Text.CreateRange(at, at)
	if err != nil {
		return false
	}
	nodes := t.Text.Nodes()
	if len(nodes) > 0 && from.ID().CreatedAt().Compare(time.InitialTicket) == 0 {
		// in front of everything: the anchor is the head, which Nodes() does not list
		return nodes[0].RemovedAt() != nil
	}
	for i, n := range nodes {
		if !n.ID().Equal(from.ID()) {
			continue
		}
		l := len(utf16.Encode([]rune(n.Value().Value())))
		if from.RelativeOffset() < l {
			return false // inside a node: the successor is its own right half
		}
		if i+1 >= len(nodes) {
			return false
		}
		return nodes[i+1].RemovedAt() != nil
	}
	return false
}

func treeInsertBeforeTombstone(t *json.Tree, at int) bool {
	pos, err := t.Tree.FindPos(at)
	if err != nil {
		return false
	}
	parent, left := t.Tree.ToTreeNodes(pos)
	if parent == nil || left == nil {
		return false
	}
	var kids []*crdt.TreeNode
	realParent := parent
	leftmost := parent == left
	if !leftmost && left.Index.Parent != nil {
		realParent = left.Index.Parent.Value
	}
	kids = realParent.Children(true)
	idx := 0
	if !leftmost {
		if left.IsText() {
			off := pos.LeftSiblingID.Offset - left.ID().Offset
			if off < left.Length() {
				return false // split inside a text node
			}
		}
		found := false
		for i, k := range kids {
			if k == left {
				idx = i + 1
				found = true
				break
			}
		}
		if !found {
			return false
		}
	}
	if idx >= len(kids) {
		return false
	}
	return kids[idx].IsRemoved()
}
