package props

import (
	"bytes"
	"fmt"
	"strings"

	"github.com/yorkie-team/yorkie/api/converter"
	"github.com/yorkie-team/yorkie/pkg/document"
	yjson "github.com/yorkie-team/yorkie/pkg/document/json"
	"github.com/yorkie-team/yorkie/pkg/document/presence"
	"github.com/yorkie-team/yorkie/pkg/key"
	"github.com/yorkie-team/yorkie/server/backend/database"

	"verif/internal/runner"
)

// large family of C09: the storage encoding of a snapshot (SnapshotToBytes -> CompressSnapshot,
// what the snapshot table holds) must give back every snapshot the system can produce, also
// the big, well-compressible ones of projects that raised the document size limit: a few
// cases with documents of 1 .. 40 MiB (repetitive text, long arrays).
func (w *c09Worker) runLarge(res *runner.CaseResult, idx int) {
	n := (idx / 1000) % 4
	mib := []int{1, 17, 24, 40}[n]
	replay := map[string]any{"family": "large", "seed": w.seed, "idx": idx}
	d := document.New(key.Key("c09-large"))
	d.SetActor(actorA)
	chunk := strings.Repeat("yorkie-0123456789-", 4096) // 72 KiB
	if err := d.Update(func(root *yjson.Object, _ *presence.Presence) error {
		root.SetString("big", strings.Repeat(chunk, mib*1024*1024/len(chunk)/2))
		t := root.SetNewText("txt")
		t.Edit(0, 0, strings.Repeat(chunk, mib*1024*1024/len(chunk)/4))
		a := root.SetNewArray("arr")
		for i := 0; i < 2000; i++ {
			a.AddString(chunk[:64])
		}
		return nil
	}); err != nil {
		res.Inconclusive = err.Error()
		return
	}
	raw, err := converter.SnapshotToBytes(d.RootObject(), d.AllPresences())
	if err != nil {
		res.Violate("snapshot-unencodable", err.Error(), "", replay)
		return
	}
	stored, err := database.CompressSnapshot(raw)
	if err != nil {
		res.Violate("snapshot-unencodable", fmt.Sprintf("CompressSnapshot of %d bytes: %v", len(raw), err), "", replay)
		return
	}
	back, err := database.DecompressSnapshot(stored)
	if err != nil {
		res.Violate("stored-snapshot-unreadable", fmt.Sprintf("a snapshot of %d bytes was stored as %d bytes and cannot be read back: %v", len(raw), len(stored), err), "", replay)
		return
	}
	if !bytes.Equal(back, raw) {
		res.Violate("snapshot-structure-lossy", fmt.Sprintf("a snapshot of %d bytes reads back as %d different bytes", len(raw), len(back)), "", replay)
		return
	}
	obj, _, err := converter.BytesToSnapshot(back)
	if err != nil {
		res.Violate("stored-snapshot-unreadable", "BytesToSnapshot: "+err.Error(), "", replay)
		return
	}
	if obj.Marshal() != d.RootObject().Marshal() {
		res.Violate("snapshot-structure-lossy", "a large snapshot decodes to different content", "", replay)
		return
	}
	res.AddStat("large_snapshots_round_tripped", 1)
	res.AddStat("large_snapshot_raw_mib", int64(len(raw)>>20))
	res.Hash = fmt.Sprintf("large-%d", mib)
	res.Nontrivial = true
}
