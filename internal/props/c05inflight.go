package props

import (
	"context"
	"fmt"
	"strings"
	gotime "time"

	yjson "github.com/yorkie-team/yorkie/pkg/document/json"
	"github.com/yorkie-team/yorkie/pkg/document/presence"

	"verif/internal/runner"
	"verif/internal/sim"
)

// in-flight family of C05: the client gives up on a sync (timeout, cancelled context) and
// resends the identical pack while the server is STILL handling the first attempt. The first
// attempt is stalled before or after its k-th storage call (k enumerated), the retry is sent,
// then the first is released; the client applies the retry's answer (the first one's is lost).
// Every edit the pack carried must be in the log once, the counter must count once, and the
// replicas must converge.
const c05InflightStalls = 30

func (w *c05Worker) runInflight(res *runner.CaseResult, n int) {
	stall := 1 + n%c05InflightStalls
	flavour := (n / c05InflightStalls) % 3 // 0 sync, 1 push-only, 2 sync while a peer writes in between
	replay := map[string]any{"family": "inflight", "seed": w.seed, "n": n}
	proj, err := w.project(0)
	if err != nil {
		res.Inconclusive = err.Error()
		return
	}
	ctx := context.Background()
	world := sim.NewWorld(w.env, proj, sim.WorldCfg{}, fmt.Sprintf("c05i-%d", n))
	world.Exec(sim.Step{T: "attach", R: 0})
	world.Exec(sim.Step{T: "attach", R: 1})
	r0, r1 := world.Reps[0], world.Reps[1]
	_ = r0.Update(func(root *yjson.Object, _ *presence.Presence) error {
		root.SetNewCounter("cnt", int32(0))
		root.SetNewArray("arr")
		return nil
	})
	world.Exec(sim.Step{T: "sync", R: 0})
	world.Exec(sim.Step{T: "sync", R: 1})
	if len(world.Fail) > 0 {
		res.Inconclusive = "setup: " + world.Fail[0].Detail
		return
	}
	w.env.WaitIdle()
	// two changes in the pack: a counter increase and an array element
	_ = r0.Update(func(root *yjson.Object, _ *presence.Presence) error { root.GetCounter("cnt").Increase(5); return nil })
	_ = r0.Update(func(root *yjson.Object, _ *presence.Presence) error { root.GetArray("arr").AddString("once"); return nil })
	if flavour == 2 {
		_ = r1.Update(func(root *yjson.Object, _ *presence.Presence) error { root.GetCounter("cnt").Increase(100); return nil })
	}
	if err := r0.SyncBegin(flavour == 1); err != nil {
		res.Inconclusive = err.Error()
		return
	}
	req := r0.Pending.Req
	// the first attempt, stalled; its answer never reaches the client
	gate := &gateHook{}
	w.fdb.SetHook(gate)
	defer w.fdb.SetHook(w.hook)
	gate.arm(stall)
	doneA := make(chan error, 1)
	go func() { _, err := r0.SendRaw(ctx, req); doneA <- err }()
	stalled := false
	var errA error
	select {
	case <-gate.reached:
		stalled = true
	case errA = <-doneA:
		gate.disarm()
	}
	if flavour == 2 {
		_ = r1.Sync(ctx, false)
	}
	// the retry: the identical request
	doneB := make(chan error, 1)
	go func() { doneB <- r0.SyncSend(ctx) }()
	var errB error
	gotB := false
	if stalled {
		select {
		case errB = <-doneB:
			gotB = true
			res.AddStat("inflight_retry_overtook_the_original", 1)
		case <-gotime.After(150 * gotime.Millisecond):
			res.AddStat("inflight_retry_waited_for_the_original", 1)
		}
		close(gate.release)
		select {
		case errA = <-doneA:
		case <-gotime.After(60 * gotime.Second):
			res.Inconclusive = "the stalled request did not return within 60 s"
			return
		}
	}
	if !gotB {
		select {
		case errB = <-doneB:
		case <-gotime.After(60 * gotime.Second):
			res.Inconclusive = "the retry did not return within 60 s"
			return
		}
	}
	_, trail := gate.disarm()
	w.fdb.SetHook(w.hook)
	w.env.WaitIdle()
	where := fmt.Sprintf("flavour %d, original stalled %s (original -> %s, retry -> %s)", flavour, func() string {
		if stalled && len(trail) > 0 {
			return trail[len(trail)-1]
		}
		return "nowhere"
	}(), errStr(errA), errStr(errB))
	viol := func(kind, detail string) { res.Violate(kind, where+": "+detail, "", replay) }
	res.AddStat("inflight_cases", 1)
	if stalled {
		res.AddStat("inflight_cases_with_a_stalled_original", 1)
		res.AddSet("inflight_stall_points", trail[len(trail)-1])
	}
	if errB != nil {
		// a failed retry must be retryable
		r0.SyncDrop()
		if err := r0.Sync(ctx, false); err != nil {
			viol("retry-fails", "the retry failed and so does the next sync: "+err.Error())
			return
		}
	} else if err := r0.SyncEnd(); err != nil {
		viol("retry-fails", "applying the retry's answer: "+err.Error())
		return
	}
	if !world.Quiesce() {
		viol("sync-failed", fmt.Sprint(world.Fail))
		return
	}
	log, _ := world.ServerLog()
	seen := map[string]int{}
	for _, c := range log {
		seen[fmt.Sprintf("%s/%d", c.ActorID, c.ClientSeq)]++
	}
	for k, c := range seen {
		if c > 1 {
			viol("duplicate-change", fmt.Sprintf("change %s is %d times in the log", k, c))
			return
		}
	}
	want := `"cnt":5`
	if flavour == 2 {
		want = `"cnt":105`
	}
	for _, r := range []interface{ Marshal() string }{r0.Doc, r1.Doc} {
		m := r.Marshal()
		if !containsAll(m, want, `"arr":["once"]`) {
			viol("edit-lost-or-doubled", fmt.Sprintf("a replica shows %s, expected %s and \"arr\":[\"once\"]", trunc400(m), want))
			return
		}
	}
	if a, b := r0.Doc.Marshal(), r1.Doc.Marshal(); a != b {
		viol("divergence", fmt.Sprintf("r0 %s\nr1 %s", trunc400(a), trunc400(b)))
		return
	}
	res.Hash = runner.HashOf([]int{n})
	res.Nontrivial = stalled
}

func containsAll(s string, subs ...string) bool {
	for _, x := range subs {
		if !strings.Contains(s, x) {
			return false
		}
	}
	return true
}
