package props

import (
	"encoding/json"
	"fmt"
	"math/rand"
	"os"
	"runtime/debug"
	"strings"

	"github.com/yorkie-team/yorkie/pkg/document"
	"github.com/yorkie-team/yorkie/pkg/document/change"
	"github.com/yorkie-team/yorkie/pkg/document/crdt"
	"github.com/yorkie-team/yorkie/pkg/key"

	"verif/internal/gen"
	"verif/internal/model"
	"verif/internal/runner"
)

type c14 struct{}

func init() { register(c14{}) }

func (c14) ID() string    { return "C14" }
func (c14) Level() string { return "exploration" }
func (c14) Rule() string {
	return "three case families on ONE in-process Document that receives no remote change. (content) a random program of " +
		"3..40 Updates (1..3 edits each) over the content alphabet - object set/delete incl. nested containers, array " +
		"add/insert/delete, text insert/delete/replace (with attributes on insert), counter increase, tree insert/delete of text " +
		"and elements inside one parent - records the canonical content (text as styled runs, tree as XML) after every Update " +
		"that pushed a history entry; then a random well-nested walk of Undo/Redo (interleaved with new edits that cut the redo " +
		"branch) must show exactly the recorded content at every position, CanUndo/CanRedo must match the position, every call " +
		"returns nil, and Root()==Marshal() after every call. (exhaustive) ALL programs of <=3 (array: <=2) content edits over " +
		"the reduced C07 alphabets for text / array / tree / object+counter, each followed by the full nested walk U^n R^n and " +
		"U^k R^k for every k. (approximate) programs that also contain text/tree styles, array move / set-by-index: every " +
		"Undo/Redo returns nil, Root()==Marshal(), and ALL changes the walk produced are delivered through the wire codec to a " +
		"fresh peer, which must apply them without error and show the author's content. The peer delivery is also done in the " +
		"other two families. Non-trivial = >=3 history entries and >=3 undo/redo calls. Collection steps (single attached client) in random and exhaustive families (each program: none / once / after every call); approximate-array family; structural monitors (splay weights, insertion chains, registries) after every undo/redo/collect; symptoms of recorded findings never end an enumeration."
}
func (c14) Assumptions() []string {
	return []string{"no server; single goroutine", "tree edits stay inside one parent (no split, no merge): split+edit and dedup counters are outside the property's quantifier",
		"history depth kept below MaxUndoRedoStackDepth (50)"}
}
func (c14) NumCases(tier string, _ int64) int {
	if tier == "thorough" {
		return 400000
	}
	return 15000
}
func (c14) Exhaustive(string) bool { return false }
func (c14) Floors(string) []runner.Floor {
	return []runner.Floor{{Stat: "undo_redo_calls", Min: 50000}, {Stat: "content_positions_compared", Min: 40000}, {Stat: "exhaustive_programs", Min: 2000}, {Stat: "peer_deliveries", Min: 3000},
		{Stat: "collect_steps", Min: 5000}, {Stat: "tombstones_purged", Min: 10000}, {Stat: "undo_redo_recreated_a_purged_node", Min: 200}}
}

type c14Worker struct {
	tier string
	seed int64
}

func (c14) NewWorker(tier string, seed int64) (runner.Worker, error) {
	return &c14Worker{tier: tier, seed: seed}, nil
}
func (w *c14Worker) Close() {}

type c14Step struct {
	T       string     `json:"t"` // update | undo | redo | clear | collect
	E       []gen.Edit `json:"e,omitempty"`
	Refused bool       `json:"refused,omitempty"` // the Update returned an error (recorded, replayed as is)
}

func (s c14Step) String() string {
	if s.T != "update" {
		return s.T
	}
	var p []string
	for _, e := range s.E {
		p = append(p, e.String())
	}
	if s.Refused {
		return "refused-update[" + strings.Join(p, " + ") + "]"
	}
	return "update[" + strings.Join(p, " + ") + "]"
}

type c14Replay struct {
	Family string    `json:"family"`
	Seed   int64     `json:"seed"`
	Idx    int       `json:"idx"`
	Exact  bool      `json:"exact"` // content family: positions are compared
	Steps  []c14Step `json:"steps"`
}

// c14Run executes steps on a fresh document, checking after every call.
type c14Run struct {
	res    *runner.CaseResult
	doc    *document.Document
	exact  bool
	states []string // canonical content per history position; states[0] = before the first entry
	cur    int
	steps  []c14Step
	rp     c14Replay
	bad    bool
	calls  int
	// mergeSeen: the program deleted across a tree element boundary
	mergeSeen bool
	// purged: tombstones a collect step removed (the only attached client: the minimum
	// version vector is its own)
	purged int
	// ever: identity of every text/tree node the document ever held; recreated: an
	// undo/redo brought back, as a NEW node, one that a collect step had purged
	ever      map[string]bool
	recreated string
	// bags: contentBag per history position (what is there, regardless of where it stands);
	// editedAfterRecreation: an Update was made after an undo/redo had re-created a node
	bags                  []string
	editedAfterRecreation bool
	redoneAfterRecreation bool
}

func newC14Run(res *runner.CaseResult, rp c14Replay) *c14Run {
	d := document.New(key.Key("c14-doc"))
	d.SetActor(actorA)
	r := &c14Run{res: res, doc: d, exact: rp.Exact, rp: rp}
	r.states = []string{canonDoc(d)}
	r.bags = []string{contentBag(d)}
	return r
}

// c14NodeIDs: identity of every text piece and tree node (tombstones included).
func c14NodeIDs(d *document.Document) map[string]bool {
	out := map[string]bool{}
	var walk func(e crdt.Element)
	walk = func(e crdt.Element) {
		switch v := e.(type) {
		case *crdt.Object:
			for _, m := range v.Members() {
				walk(m)
			}
		case *crdt.Array:
			for _, m := range v.Elements() {
				walk(m)
			}
		case *crdt.Text:
			for _, n := range v.Nodes() {
				out["text "+v.CreatedAt().Key()+" "+n.ID().ToTestString()] = true
			}
		case *crdt.Tree:
			for _, n := range v.Nodes() {
				out[fmt.Sprintf("tree %s %s:%d", v.CreatedAt().Key(), n.ID().CreatedAt.Key(), n.ID().Offset)] = true
			}
		}
	}
	walk(d.RootObject())
	return out
}

func (r *c14Run) remember() map[string]bool {
	ids := c14NodeIDs(r.doc)
	if r.ever == nil {
		r.ever = map[string]bool{}
	}
	for id := range ids {
		r.ever[id] = true
	}
	return ids
}

func (r *c14Run) viol(kind, detail string) {
	r.bad = true
	var prog []string
	for _, st := range r.steps {
		prog = append(prog, st.String())
	}
	rp := r.rp
	rp.Steps = r.steps
	ident := ""
	if r.mergeSeen {
		// after a boundary-crossing tree deletion the symptoms of recorded finding
		// F-TREE-MERGE-UNDO are identified as such (wrong content, index errors of the
		// index-addressed fallback reverses); everything else stays a violation
		switch kind {
		case "undo-content-wrong", "redo-content-wrong":
			ident = "after-tree-merge:content"
		case "undo-failed", "redo-failed":
			if strings.Contains(detail, "out of range") {
				ident = "after-tree-merge:index-error"
			}
		}
	}
	placementOnly := r.cur >= 0 && r.cur < len(r.bags) && contentBag(r.doc) == r.bags[r.cur]
	if ident == "" && r.recreated != "" && (kind == "undo-content-wrong" || kind == "redo-content-wrong") && (placementOnly || r.editedAfterRecreation || r.redoneAfterRecreation) {
		// recorded finding F-UNDO-AFTER-PURGE (upstream's open "GC vs undo", #664): an
		// undo/redo of this history had to RE-CREATE a text piece / tree node that garbage
		// collection had purged; where a recreated node goes is a guess once its tombstone
		// (the only record of its place among concurrent insertions) is gone
		ident = "undo-after-purge:recreated-" + r.recreated
		detail += "\nan undo/redo of this history re-created a purged " + r.recreated + " node; the content differs in placement only, or later calls worked on the misplaced content"
	}
	if ident != "" {
		// a symptom of a recorded finding: counted every time, kept only a few times per case;
		// it must not use up the budget that ends an enumeration
		r.res.AddStat("attributed_to_recorded_findings", 1)
		n := 0
		for _, v := range r.res.Viol {
			if v.Ident == ident {
				n++
			}
		}
		if n >= 2 {
			return
		}
	}
	r.res.Violate(kind, detail+"\nprogram: "+strings.Join(prog, "; "), ident, rp)
}

func (r *c14Run) cloneRoot(where string) bool {
	r.res.AddStat("clone_root_comparisons", 1)
	if a, b := r.doc.Root().Marshal(), r.doc.Marshal(); a != b {
		r.viol("clone-differs-from-root", fmt.Sprintf("%s: Root() shows %s but the document is %s", where, a, b))
		return false
	}
	return true
}

// do executes one step; returns false when the step was not applicable (edit refused) or the run is over.
func (r *c14Run) do(st c14Step) bool {
	if r.bad {
		return false
	}
	switch st.T {
	case "update":
		before := r.doc.UndoStackLenForTest()
		if err := safeUpdate(r.doc, st.E); err != nil {
			// a refused Update is part of the history: it drops the working copy, which
			// is then rebuilt from the document
			st.Refused = true
			r.steps = append(r.steps, st)
			r.res.AddStat("refused_updates", 1)
			if strings.HasPrefix(err.Error(), "PANIC") {
				r.viol("update-panicked", err.Error())
				return false
			}
			r.cloneRoot("after refused " + st.String())
			return false
		}
		r.steps = append(r.steps, st)
		if !r.cloneRoot("after " + st.String()) {
			return false
		}
		after := r.doc.UndoStackLenForTest()
		switch {
		case after == before+1:
			r.states = append(r.states[:r.cur+1], canonDoc(r.doc))
			r.bags = append(r.bags[:r.cur+1], contentBag(r.doc))
			if r.recreated != "" {
				r.editedAfterRecreation = true
			}
			r.cur++
		case after == before:
			// no history entry: the content must not have changed either, or undo skips an edit
			if c := canonDoc(r.doc); r.exact && c != r.states[r.cur] && before < document.MaxUndoRedoStackDepth {
				r.viol("edit-without-history-entry", fmt.Sprintf("%s changed the content to %s but pushed no undo entry (depth stays %d)", st.String(), c, after))
				return false
			}
			r.states = r.states[:r.cur+1]
			r.states[r.cur] = canonDoc(r.doc)
			r.bags = r.bags[:r.cur+1]
			r.bags[r.cur] = contentBag(r.doc)
		default:
			r.viol("undo-depth-jumped", fmt.Sprintf("%s moved the undo depth from %d to %d", st.String(), before, after))
			return false
		}
	case "collect":
		// what the sync of the ONLY attached client does: every change is acknowledged,
		// the minimum version vector is the client's own, every tombstone is purged
		r.steps = append(r.steps, st)
		r.remember()
		n, err := 0, error(nil)
		func() {
			defer func() {
				if x := recover(); x != nil {
					err = fmt.Errorf("PANIC: %v", x)
					if os.Getenv("VERIF_STACK") != "" {
						err = fmt.Errorf("PANIC: %v\n%s", x, debug.Stack())
					}
				}
			}()
			n = r.doc.GarbageCollect(r.doc.VersionVector().DeepCopy())
		}()
		if err != nil {
			r.viol("collect-failed", err.Error())
			return false
		}
		r.purged += n
		r.res.AddStat("collect_steps", 1)
		r.res.AddStat("tombstones_purged", int64(n))
		if !r.cloneRoot("after collect") {
			return false
		}
		if c := canonDoc(r.doc); r.exact && c != r.states[r.cur] {
			r.viol("collect-changed-content", fmt.Sprintf("garbage collection changed the visible content:\n before %s\n after  %s", r.states[r.cur], c))
			return false
		}
		if p := textIndexProblem(r.doc); p != "" {
			r.viol("structure-corrupt", "after collect: "+p)
			return false
		}
	case "clear":
		// the history starts over while the content stays (what a client sees after
		// attaching to an existing document)
		r.steps = append(r.steps, st)
		if err := r.doc.ClearHistory(); err != nil {
			r.viol("clear-history-failed", err.Error())
			return false
		}
		r.states = []string{canonDoc(r.doc)}
		r.bags = []string{contentBag(r.doc)}
		r.cur = 0
		r.res.AddStat("histories_started_on_existing_content", 1)
	case "undo", "redo":
		undo := st.T == "undo"
		if (undo && r.cur == 0) || (!undo && r.cur == len(r.states)-1) {
			return false
		}
		r.steps = append(r.steps, st)
		r.calls++
		r.res.AddStat("undo_redo_calls", 1)
		if r.recreated != "" {
			// this call works on content an earlier call re-created (and possibly misplaced)
			r.redoneAfterRecreation = true
		}
		var pre map[string]bool
		if r.purged > 0 {
			pre = r.remember()
		}
		if err := safeUndo(r.doc, undo); err != nil {
			r.viol(st.T+"-failed", fmt.Sprintf("%s at history position %d of %d returned: %v", st.T, r.cur, len(r.states)-1, err))
			return false
		}
		if pre != nil && r.recreated == "" {
			for id := range c14NodeIDs(r.doc) {
				if !pre[id] && r.ever[id] {
					r.recreated = strings.SplitN(id, " ", 2)[0]
					r.res.AddStat("undo_redo_recreated_a_purged_node", 1)
					break
				}
			}
		}
		if undo {
			r.cur--
		} else {
			r.cur++
		}
		if !r.cloneRoot("after " + st.T) {
			return false
		}
		if p := textIndexProblem(r.doc); p != "" {
			r.viol("structure-corrupt", "after "+st.T+": "+p)
			return false
		}
		if r.exact {
			r.res.AddStat("content_positions_compared", 1)
			if c := canonDoc(r.doc); c != r.states[r.cur] {
				r.viol(st.T+"-content-wrong", fmt.Sprintf("after %s the document should be back at history position %d:\n want %s\n got  %s", st.T, r.cur, r.states[r.cur], c))
				return false
			}
			if cu, cr := r.doc.CanUndo(), r.doc.CanRedo(); cu != (r.cur > 0) || cr != (r.cur < len(r.states)-1) {
				r.viol("can-undo-redo-wrong", fmt.Sprintf("at position %d of %d: CanUndo=%v CanRedo=%v", r.cur, len(r.states)-1, cu, cr))
				return false
			}
		}
	}
	return true
}

// deliverToPeer ships everything the author produced to a fresh peer through the wire codec.
func (r *c14Run) deliverToPeer() {
	if r.bad {
		return
	}
	if r.purged > 0 {
		// the peer below replays the whole log WITHOUT the purges the author went through;
		// how an undo after a purge is resolved by replicas in different collection states
		// is C15's subject (recorded finding F-UNDO-AFTER-PURGE), not judged here
		r.res.AddStat("peer_delivery_skipped_after_purge", 1)
		return
	}
	pack := r.doc.CreateChangePack()
	if len(pack.Changes) == 0 {
		return
	}
	r.res.AddStat("peer_deliveries", 1)
	cs, _, err := viaWire(pack.Changes, r.doc.Key())
	if err != nil {
		r.viol("changes-not-encodable", err.Error())
		return
	}
	peer := document.New(r.doc.Key())
	peer.SetActor(actorB)
	peer.SetStatus(document.StatusAttached)
	var aerr error
	func() {
		defer func() {
			if x := recover(); x != nil {
				aerr = fmt.Errorf("PANIC: %v", x)
			}
		}()
		aerr = peer.ApplyChangePack(change.NewPack(peer.Key(), change.InitialCheckpoint.NextServerSeq(int64(len(cs))), cs, nil, nil))
	}()
	if aerr != nil {
		r.viol("later-sync-fails", fmt.Sprintf("a peer cannot apply the %d changes this client produced: %v", len(cs), aerr))
		return
	}
	if a, b := canonDoc(r.doc), canonDoc(peer); a != b {
		r.viol("peer-differs-after-sync", fmt.Sprintf("the author shows %s\nthe peer shows  %s", a, b))
	}
}

func c14ContentProfile(rng *rand.Rand) gen.Profile {
	p := c07Profile(rng)
	p.NoDedup = true
	p.NoMove = true
	p.NoArrSet = true
	p.NoStyle = true
	return p
}

func (w *c14Worker) runRandom(res *runner.CaseResult, idx int, exact bool, arrays bool) {
	rng := caseRng(w.seed^0xc14, idx)
	fam := "approximate"
	var prof gen.Profile
	switch {
	case arrays:
		// arrays only, with set-by-index and moves, under collection: undo stacks that
		// refer to purged elements, positions and re-issued tickets
		fam = "approximate-array"
		exact = false
		prof = gen.Profile{Arr: 1, DeleteBias: 35 + rng.Intn(30), MaxDepth: 2, NewContainers: rng.Intn(2) * 10}
	case exact:
		fam = "content"
		prof = c14ContentProfile(rng)
	default:
		prof = c07Profile(rng)
		prof.NoDedup = true
	}
	r := newC14Run(res, c14Replay{Family: fam, Seed: w.seed, Idx: idx, Exact: exact})
	fresh := 0
	next := func() (c14Step, bool) {
		if rng.Intn(100) < 8 {
			// a container created together with its first content in ONE Update
			fresh++
			k := fmt.Sprintf("n%d", fresh)
			p := []string{k}
			switch rng.Intn(5) {
			case 0:
				return c14Step{T: "update", E: []gen.Edit{{Op: "obj.set", K: k, V: &gen.Val{T: "arr"}}, {Op: "arr.add", Path: p, V: &gen.Val{T: "str", S: "milk"}}, {Op: "arr.add", Path: p, V: &gen.Val{T: "int", I: 2}}}}, true
			case 1:
				return c14Step{T: "update", E: []gen.Edit{{Op: "obj.set", K: k, V: &gen.Val{T: "text"}}, {Op: "txt.edit", Path: p, S: "hey"}}}, true
			case 2:
				return c14Step{T: "update", E: []gen.Edit{{Op: "obj.set", K: k, V: &gen.Val{T: "obj"}}, {Op: "obj.set", Path: p, K: "x", V: &gen.Val{T: "int", I: 1}}}}, true
			case 3:
				return c14Step{T: "update", E: []gen.Edit{{Op: "obj.set", K: k, V: &gen.Val{T: "cnti"}}, {Op: "cnt.inc", Path: p, N: 5}}}, true
			default:
				return c14Step{T: "update", E: []gen.Edit{{Op: "arr.add", Path: []string{"arr"}, V: &gen.Val{T: "arr"}}, {Op: "obj.set", K: k, V: &gen.Val{T: "arr"}}, {Op: "arr.add", Path: p, V: &gen.Val{T: "arr"}}, {Op: "arr.add", Path: []string{k, "#0"}, V: &gen.Val{T: "str", S: "deep"}}}}, true
			}
		}
		n := 1
		if rng.Intn(5) == 0 {
			n = 2 + rng.Intn(2)
		}
		var es []gen.Edit
		// edits of one Update are generated against the state before the Update; keep them on different containers
		conts := gen.Scan(r.doc.Root().Object, prof.MaxDepth)
		seen := map[string]bool{}
		var replaced []string // containers an earlier edit of this Update replaced or removed
	pick:
		for i := 0; i < n; i++ {
			e := prof.Next(rng, conts, "A")
			k := strings.Join(e.Path, "/")
			if seen[k] {
				continue
			}
			// indices of this edit were chosen in the state BEFORE the Update: do not aim
			// them at a container that an earlier edit of the same Update swapped out
			for _, rp := range replaced {
				if k == rp || strings.HasPrefix(k, rp+"/") || (strings.HasSuffix(rp, "/#") && strings.HasPrefix(k, rp)) {
					continue pick
				}
			}
			seen[k] = true
			if e.Op == "obj.set" || e.Op == "obj.del" {
				replaced = append(replaced, strings.TrimPrefix(k+"/"+e.K, "/"))
			}
			if strings.HasPrefix(e.Op, "arr.") {
				replaced = append(replaced, k+"/#")
			}
			es = append(es, e)
		}
		return c14Step{T: "update", E: es}, len(es) > 0
	}
	init := gen.InitEdits()
	for i := range init {
		r.do(c14Step{T: "update", E: []gen.Edit{init[i]}})
	}
	if rng.Intn(100) < 40 {
		r.do(c14Step{T: "clear"})
	}
	n := 3 + rng.Intn(30)
	if w.tier == "thorough" {
		n = 3 + rng.Intn(40)
	}
	for i := 0; i < n && !r.bad && len(r.states) < document.MaxUndoRedoStackDepth-2; i++ {
		if st, ok := next(); ok {
			r.do(st)
			for _, e := range st.E {
				res.AddSet("ops", e.Op)
			}
		}
	}
	collects := idx%2 == 1 || arrays
	if collects {
		r.do(c14Step{T: "collect"})
	}
	walk := 6 + rng.Intn(40)
	for i := 0; i < walk && !r.bad; i++ {
		x := rng.Intn(100)
		if collects && rng.Intn(6) == 0 {
			r.do(c14Step{T: "collect"})
		}
		switch {
		case x < 50:
			// a burst of undos
			for k := 1 + rng.Intn(4); k > 0 && r.do(c14Step{T: "undo"}); k-- {
			}
		case x < 88:
			for k := 1 + rng.Intn(4); k > 0 && r.do(c14Step{T: "redo"}); k-- {
			}
		default:
			if len(r.states) < document.MaxUndoRedoStackDepth-2 {
				if st, ok := next(); ok {
					r.do(st)
				}
			}
		}
	}
	r.deliverToPeer()
	res.Hash = runner.HashOf(r.steps)
	res.Nontrivial = len(r.states) >= 4 && r.calls >= 3
	res.AddSet("families", fam)
	if idx%499 < 2 {
		var prog []string
		for i, st := range r.steps {
			if i >= 30 {
				break
			}
			prog = append(prog, st.String())
		}
		b, _ := json.Marshal(map[string]any{"family": fam, "history_entries": len(r.states) - 1, "undo_redo_calls": r.calls, "first_steps": prog})
		res.Sample = b
	}
}

// runTreeMerge: tree programs whose deletions may cross a </p><p> boundary
// (a merge; a delete without split), exact comparison.
func (w *c14Worker) runTreeMerge(res *runner.CaseResult, idx int) {
	rng := caseRng(w.seed^0xc14e, idx)
	r := newC14Run(res, c14Replay{Family: "tree-merge", Seed: w.seed, Idx: idx, Exact: true})
	r.do(c14Step{T: "update", E: []gen.Edit{{Op: "obj.set", K: "tree", V: &gen.Val{T: "tree", S: "ab"}}}})
	p := []string{"tree"}
	r.do(c14Step{T: "update", E: []gen.Edit{{Op: "tree.edit", Path: p, I: 4, J: 4, T: []gen.TN{{Type: "p", Kids: []gen.TN{{Type: "text", Text: "cd"}}}}}}})
	r.do(c14Step{T: "update", E: []gen.Edit{{Op: "tree.edit", Path: p, I: 8, J: 8, T: []gen.TN{{Type: "p", Kids: []gen.TN{{Type: "text", Text: "ef"}}}}}}})
	if rng.Intn(2) == 0 {
		r.do(c14Step{T: "clear"})
	}
	merges := 0
	edit := func() {
		m := model.FromDoc(r.doc.RootObject())
		t := m.Obj["tree"]
		if t == nil || t.Tree == nil {
			return
		}
		// paragraphs with their text spans: [start of text, end of text]
		type span struct{ a, b int }
		var ps []span
		pos := 0
		for _, it := range t.Tree.Items {
			if it.El == nil {
				pos++
				continue
			}
			onlyText := true
			for _, c := range it.El.Items {
				if c.El != nil {
					onlyText = false
				}
			}
			if onlyText {
				ps = append(ps, span{pos + 1, pos + 1 + it.El.Len()})
			}
			pos += it.El.Len() + 2
		}
		if len(ps) == 0 {
			r.do(c14Step{T: "update", E: []gen.Edit{{Op: "tree.edit", Path: p, I: 0, J: 0, T: []gen.TN{{Type: "p", Kids: []gen.TN{{Type: "text", Text: "n"}}}}}}})
			return
		}
		x := rng.Intn(100)
		i := rng.Intn(len(ps))
		switch {
		case x < 30 && i+1 < len(ps):
			// merge: from somewhere in paragraph i to somewhere in paragraph i+1
			a := ps[i].a + rng.Intn(ps[i].b-ps[i].a+1)
			b := ps[i+1].a + rng.Intn(ps[i+1].b-ps[i+1].a+1)
			r.mergeSeen = true
			if r.do(c14Step{T: "update", E: []gen.Edit{{Op: "tree.edit", Path: p, I: a, J: b}}}) {
				merges++
				res.AddStat("tree_merges", 1)
			}
		case x < 55:
			at := ps[i].a + rng.Intn(ps[i].b-ps[i].a+1)
			r.do(c14Step{T: "update", E: []gen.Edit{{Op: "tree.edit", Path: p, I: at, J: at, T: []gen.TN{{Type: "text", Text: string(rune('a' + rng.Intn(26)))}}}}})
		case x < 75 && ps[i].b > ps[i].a:
			a := ps[i].a + rng.Intn(ps[i].b-ps[i].a)
			b := a + 1 + rng.Intn(ps[i].b-a)
			r.do(c14Step{T: "update", E: []gen.Edit{{Op: "tree.edit", Path: p, I: a, J: b}}})
		default:
			at := ps[i].b + 1 // after the paragraph
			r.do(c14Step{T: "update", E: []gen.Edit{{Op: "tree.edit", Path: p, I: at, J: at, T: []gen.TN{{Type: "p", Kids: []gen.TN{{Type: "text", Text: "xy"}}}}}}})
		}
	}
	n := 3 + rng.Intn(12)
	for i := 0; i < n && !r.bad; i++ {
		edit()
	}
	for i, walk := 0, 6+rng.Intn(30); i < walk && !r.bad; i++ {
		x := rng.Intn(100)
		switch {
		case x < 50:
			for k := 1 + rng.Intn(4); k > 0 && r.do(c14Step{T: "undo"}); k-- {
			}
		case x < 90:
			for k := 1 + rng.Intn(4); k > 0 && r.do(c14Step{T: "redo"}); k-- {
			}
		default:
			edit()
		}
	}
	r.deliverToPeer()
	res.Hash = runner.HashOf(r.steps)
	res.Nontrivial = merges >= 1 && r.calls >= 3
	res.AddSet("families", "tree-merge")
}

func c14IsContentOp(op string) bool {
	switch op {
	case "txt.style", "tree.style", "tree.rmstyle", "arr.move", "arr.front", "arr.last", "arr.before", "arr.set":
		return false
	}
	return true
}

// c14Alphabet is the content alphabet of the exhaustive family in state m.
func c14Alphabet(family string, m *model.Node) []gen.Edit {
	if family == "object" {
		var out []gen.Edit
		for _, k := range []string{"a", "b"} {
			out = append(out, gen.Edit{Op: "obj.set", K: k, V: &gen.Val{T: "int", I: int64(len(m.Obj) + 1)}})
			out = append(out, gen.Edit{Op: "obj.set", K: k, V: &gen.Val{T: "arr"}})
			if _, ok := m.Obj[k]; ok {
				out = append(out, gen.Edit{Op: "obj.del", K: k})
				if m.Obj[k].Kind == "arr" {
					out = append(out, gen.Edit{Op: "arr.add", Path: []string{k}, V: &gen.Val{T: "str", S: "e"}})
				}
			}
		}
		out = append(out, gen.Edit{Op: "obj.set", K: "t", V: &gen.Val{T: "text"}})
		if t, ok := m.Obj["t"]; ok && t.Kind == "txt" {
			out = append(out, gen.Edit{Op: "txt.edit", Path: []string{"t"}, I: 0, J: 0, S: "hi"})
			out = append(out, gen.Edit{Op: "obj.del", K: "t"})
		}
		out = append(out, gen.Edit{Op: "cnt.inc", Path: []string{"cnt"}, N: 3})
		return out
	}
	var out []gen.Edit
	for _, e := range c07Alphabet(family, m) {
		if c14IsContentOp(e.Op) {
			out = append(out, e)
		}
	}
	return out
}

func c14Base(family string) []gen.Edit {
	if family == "object" {
		return []gen.Edit{{Op: "obj.set", K: "cnt", V: &gen.Val{T: "cnti"}}, {Op: "obj.set", K: "a", V: &gen.Val{T: "int", I: 1}}}
	}
	return c07Base(family)
}

func (w *c14Worker) runExhaustive(res *runner.CaseResult, family string, chunk, chunks int) {
	depth := 3
	if family == "array" {
		depth = 2
	}
	if w.tier == "thorough" {
		depth++
	}
	nprog := 0
	var rec func(prefix []gen.Edit, m *model.Node, d int)
	stop := false
	rec = func(prefix []gen.Edit, m *model.Node, d int) {
		if stop {
			return
		}
		if d > 0 {
			nprog++
			if nprog%chunks == chunk {
				// every program runs three times: plain; with a collection between the
				// program and the undo/redo walk; with a collection after every single call
				for _, gc := range []string{"", "once", "always"} {
					r := newC14Run(res, c14Replay{Family: "exhaustive-" + family, Seed: w.seed, Exact: true})
					for _, e := range c14Base(family) {
						r.do(c14Step{T: "update", E: []gen.Edit{e}})
					}
					if (nprog/chunks)%2 == 1 {
						r.do(c14Step{T: "clear"})
					}
					ok := true
					for _, e := range prefix {
						if !r.do(c14Step{T: "update", E: []gen.Edit{e}}) {
							ok = false
							break
						}
						if gc == "always" {
							r.do(c14Step{T: "collect"})
						}
					}
					if ok && !r.bad {
						res.AddStat("exhaustive_programs", 1)
						if gc == "once" {
							r.do(c14Step{T: "collect"})
						}
						call := func(t string) {
							r.do(c14Step{T: t})
							if gc == "always" {
								r.do(c14Step{T: "collect"})
							}
						}
						n := r.cur
						for k := 0; k < n; k++ {
							call("undo")
						}
						for k := 0; k < n; k++ {
							call("redo")
						}
						for k := 1; k <= n && k <= 4; k++ {
							for j := 0; j < k; j++ {
								call("undo")
							}
							for j := 0; j < k; j++ {
								call("redo")
							}
						}
						r.deliverToPeer()
					}
					if r.bad {
						stop = unattributed(res) >= 3
					}
				}
			}
		}
		if d == depth {
			return
		}
		for _, e := range c14Alphabet(family, m) {
			e := e
			m2 := cloneModel(m)
			if err := m2.Apply(&e); err != nil {
				continue
			}
			rec(append(append([]gen.Edit(nil), prefix...), e), m2, d+1)
		}
	}
	m := model.NewRoot()
	for _, e := range c14Base(family) {
		e := e
		_ = m.Apply(&e)
	}
	rec(nil, m, 0)
	res.Hash = fmt.Sprintf("exh-%s-%d", family, chunk)
	res.Nontrivial = true
	res.AddSet("families", "exhaustive-"+family)
	b, _ := json.Marshal(map[string]any{"family": "exhaustive-" + family, "chunk": chunk, "programs_in_chunk": res.Stats["exhaustive_programs"], "depth": depth})
	res.Sample = b
}

var c14Families = []string{"text", "array", "tree", "object"}

const c14Chunks = 8

func (w *c14Worker) Run(idx int) runner.CaseResult {
	res := runner.CaseResult{Case: fmt.Sprintf("c14-%d", idx)}
	if idx < len(c14Families)*c14Chunks {
		w.runExhaustive(&res, c14Families[idx/c14Chunks], idx%c14Chunks, c14Chunks)
		return res
	}
	if idx%7 == 6 {
		w.runTreeMerge(&res, idx)
		return res
	}
	if idx%10 == 9 {
		w.runRandom(&res, idx, false, true)
		return res
	}
	w.runRandom(&res, idx, idx%3 != 0, false)
	return res
}

func (w *c14Worker) Replay(data json.RawMessage) runner.CaseResult {
	res := runner.CaseResult{Case: "replay"}
	var rp c14Replay
	if err := json.Unmarshal(data, &rp); err != nil {
		res.Inconclusive = err.Error()
		return res
	}
	r := newC14Run(&res, rp)
	r.mergeSeen = rp.Family == "tree-merge"
	for _, st := range rp.Steps {
		r.do(st)
	}
	r.deliverToPeer()
	return res
}
