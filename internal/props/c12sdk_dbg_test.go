package props

import (
	"context"
	"fmt"
	"os"
	"testing"

	"github.com/yorkie-team/yorkie/client"
	"github.com/yorkie-team/yorkie/pkg/document"
	yjson "github.com/yorkie-team/yorkie/pkg/document/json"
	"github.com/yorkie-team/yorkie/pkg/document/presence"
	"github.com/yorkie-team/yorkie/pkg/key"

	"verif/internal/boot"
)

func TestC12SDKDbg(t *testing.T) {
	if os.Getenv("C12_DBG") == "" {
		t.Skip()
	}
	sw, err := newSimWorker("quick", 1, boot.Options{})
	if err != nil {
		t.Fatal(err)
	}
	defer sw.Close()
	proj, _ := sw.project(4)
	ctx := context.Background()
	c0, _ := client.Dial(sw.env.Addr, client.WithAPIKey(proj.PublicKey))
	c1, _ := client.Dial(sw.env.Addr, client.WithAPIKey(proj.PublicKey))
	_ = c0.Activate(ctx)
	_ = c1.Activate(ctx)
	k := key.Key("dbg-presenceless")
	d0 := document.New(k)
	if err := c0.Attach(ctx, d0, client.WithDisablePresence()); err != nil {
		t.Fatal(err)
	}
	for i := 0; i < 8; i++ {
		_ = d0.Update(func(root *yjson.Object, p *presence.Presence) error {
			root.SetString("k", fmt.Sprint(i))
			return nil
		})
		_ = c0.Sync(ctx)
	}
	d1 := document.New(k)
	if err := c1.Attach(ctx, d1, client.WithPresence(presence.Data{"cur": "1"})); err != nil {
		t.Fatal(err)
	}
	fmt.Println("late attacher: my", d1.MyPresence(), "all", d1.AllPresences(), "root", d1.Marshal())
	_ = d1.Update(func(root *yjson.Object, p *presence.Presence) error {
		fmt.Println("inside update: presence proxy sees", p)
		return nil
	})
}
