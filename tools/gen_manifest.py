#!/usr/bin/env python3
"""Regenerates /verif/MANIFEST.json from the table below (kept valid at all times)."""
import json, subprocess

HOOK_COMMITS = ["91c6866c", "d908861a"]

CHECKS = {
 "C01": dict(level="exploration", tech="runtime monitoring: convergence oracle (byte-identical Marshal after observed quiescence, no sync/edit error) over generated multi-replica histories on the real server",
   text="Random histories over 2..5 replicas driven through the real RPC server (memdb), snapshots and GC off for blame separation; oracle = all replicas marshal identically at every observed quiescent point and no edit/sync fails. Exploration, not proof: says 'held on N histories'.",
   note="memdb backend only; replica driver mirrors client.Client attach/sync/detach; tree edits limited to the structure-preserving domain."),
 "C02": dict(level="exploration", tech="runtime monitoring: change-fed shadow document vs snapshot-fed replicas and vs the server's rebuild for sampled serverSeqs, under three snapshot-cache regimes",
   text="Histories under snapshot interval=threshold in {1,2,3,7} and cache regimes warm/cold/evicted; a shadow InternalDocument applies the server log row by row (never GC'd, never snapshot-fed) and must equal every replica at every quiescent point and packs.BuildInternalDocForServerSeq(s) for sampled s (cold, warm-ascending, warm-descending).",
   note="memdb; reported only when the snapshot-free twin of the same history is clean; known-finding fences listed in evidence (guard_vetoes_*)."),
 "C03": dict(level="exploration", tech="runtime monitoring: twin execution (GC on vs GC off) of the same history, content compared per replica per quiescent point; sync/apply errors in the GC-on run",
   text="Each generated history (delete/move/overwrite biased, offline stretches, detach of slow clients, snapshot thresholds 0/3/7) runs twice on the real server; oracle = no sync/apply/rebuild error with GC on and content(GC on)==content(GC off).",
   note="memdb; how much is collected is only counted; twin comparison skipped (inconclusive) when actor ids sort differently in the two worlds; fences of recorded findings active."),
 "C04": dict(level="exploration", tech="offline checker over client-boundary RPC event log + stored change log (gap-free, per-actor order, exact pull ranges, monotone checkpoints, real-time order) plus porcupine linearizability check; Go race detector on",
   text="True-parallel clients (4..12 goroutines, seeded yields at storage calls and lock boundaries, -race) and sequential schedules on one document; every RPC recorded at the client boundary with ticks from one atomic counter; offline oracle against the stored log; porcupine re-checks each parallel history against a sequential append-and-pull model.",
   note="memdb serialises write transactions, so the doc.push lock / MongoDB compare-and-set are not observable here; porcupine timeout = inconclusive."),
 "C05": dict(level="fault_enumeration", tech="fault injection at the database.Database boundary (decorator on Backend.DB), exhaustive over single faults per enumerated history: every request x every storage call x {before, after-effect} + response lost, x {identical retry, edits-then-retry}",
   text="For each short history a dry run records the storage calls of every request; then every single fault is injected in a fresh run and the client retries; oracle = retry succeeds, no (actor,lamport) stored twice, counters/text/array equal the fault-free twin, replicas converge.",
   note="memdb: server crash modelled as request failing at a storage call, client crash as response lost + resend; attach/detach re-issue refusals are counted, not judged (C11); F-CHECKPOINT-WINDOW recorded."),
 "C06": dict(level="exploration", tech="online assertions at change creation (vector/lamport vs everything applied before) + offline checker over the server log + client-boundary shadow of the version-vector table for the minVV rule",
   text="Histories with edit-during-sync, snapshots, detach/re-attach, wire-level disable_gc attachers; monitors assert vv(c)>=max vv applied before, lamport strictly newer, vv[actor]==lamport, uniqueness and per-actor monotonicity in the log, stored clocks == sent clocks, and minVV[a] <= row_k[a] for every attached participating client on every response.",
   note="pointwise clause not applied to disable_gc attachments (one-entry vector by design); F-SNAPVV-EMPTY recorded with pinned witness."),
 "C07": dict(level="exploration", tech="reference-model monitor: every public editing call on one Document is mirrored on plain Go models (slice/map/[]uint16/DOM) and compared after each call on clone and root; random programs with scar steps + small-scope exhaustive enumeration",
   text="Random programs (nested containers, scar steps: concurrent peer edits through the protobuf codec, GC, snapshot round trip) and ALL programs of length <=3 over a reduced alphabet for text/array/tree; after every call structure-equality with the model incl. Len/Get, styled runs, splay weights, index<->position<->path round trips.",
   note="in-process, no server; same-parent tree ranges; code-point boundaries; F-ARRSET-MOVED fenced; dedup counters not modelled."),
 "C08": dict(level="exploration", tech="state-snapshot assertions around injected failing updates (error / panic / schema / size limit at every prefix of a callback) + twin document that never saw the failure + clone==root assertion after every step",
   text="Histories of updates, remote packs, GC, snapshots, undo/redo on one Document; every prefix of chosen callbacks is re-run failing in four ways and Marshal, Root(), pending pack, undo depth, CanUndo/CanRedo, GarbageLen, AllPresences must equal their pre-call values; the next successful update must equal the twin's; Root()==Marshal() after every step.",
   note="single-goroutine use; twin divergence is only attributed to a failure injected in the same step."),
 "C09": dict(level="exploration", tech="differential channels monitor: every change delivered to followers in-memory / through the protobuf wire codec / twice through it / through the storage codec / into a follower re-created from snapshot bytes, compared after every delivery (Marshal, GarbageLen, structural digest of all tickets and links); plus mutation fuzzing of every decoder under recover + watchdog + allocation meter; plus mutated change packs posted to the live server by an attached hostile client (every request answered, other documents unaffected)",
   text="Two in-process authors (C01 alphabet + undo/redo, dedup counters, styles, moves, tree edits) exchange changes; five followers receive each change through different encode/decode channels and must stay identical in content, GarbageLen and a structural digest (createdAt/removedAt/position registers/text node ids and insPrev links/tree ids, insPrev/insNext, merge provenance/attribute nodes with tombstone flag); snapshot forks are re-forked to check a second generation; version vectors round-trip. Hostile family: packs and snapshots harvested from those histories are mutated (bit flips, truncation at every length, splices, structural protobuf mutations) and fed to 12 decoders; oracle = no panic, returns within a watchdog, bounded allocation.",
   note="in-process (no RPC); raw movedAt of elements is not compared (only the per-key holder anchor, see DESIGN.md); five recorded findings (F-DEDUP-HLL-OPS, F-GC-ATTR-ID, F-GC-RESTORE-UNREGISTERED, F-RESTORE-TWICE with pinned witnesses; F-HOSTILE-CHANGE-STORED by ident)."),
 "C10": dict(level="exploration", tech="runtime monitoring: compaction scenario oracle over generated histories through the real path documents.CompactDocument -> Cluster RPC -> packs.Compact (refusal while attached leaves log/epoch/serverSeq untouched; after success every stale-client flavour is exercised; canonical content of fresh attachers == content before compaction; epoch +1 per success)",
   text="Each generated history (C01 alphabet, GC on, snapshot threshold 0 or 5) is brought to quiescence and followed by: normal compaction while attached (must answer compacted=false and change nothing), forced compaction / compaction after detach (must succeed), then stale sync with and without unsent edits, push-only stale sync, stale detach/remove, fresh attach, new edits, second fresh attach, second compaction. Oracle: fresh attach reads the pre-compaction content, stale syncs fail with an epoch mismatch and add no row, stale detach succeeds, epoch grows by exactly one, packs.Compact never errors on a reachable document.",
   note="memdb, single node (Cluster RPC loops back); dedup counters excluded from compaction documents (F-DEDUP-HLL-OPS recorded with pinned witness)."),
 "C12": dict(level="exploration", tech="client-boundary response decoder + stored-log reader + quiescent-point comparison of AllPresences across attached replicas, over generated histories with presence-enabled and presence-disabled documents and hostile presence senders",
   text="Histories mixing presence set/replace with edits, initial presence, detach, server-side deactivation, late attachers, snapshot pulls, on documents created with presence enabled or disabled; oracle (enabled) = at quiescence every attached replica holds the same presence map whose keys are exactly the attached senders, each entry equal to its author's; (disabled) = no stored change has a presence change, no presence-only row, no response change or snapshot carries presence.",
   note="memdb; replicas do not watch, so AllPresences() is compared; what a hostile sender keeps locally is not judged."),
 "C13": dict(level="exploration", tech="differential attack monitor at the RPC boundary: every Yorkie/Admin/Cluster procedure is called with own credentials + a foreign (other project's) identifier and, as control, + a phantom identifier; responses, canaries in the response bytes and the victim project's full state (documents, logs, clients, keys, members) are compared",
   text="Two projects with canary-bearing documents/clients/members; for every procedure and every identifier field an attacker of project B (API key, admin token, secret key holder, member of another project) substitutes A's identifiers; oracle = the response is indistinguishable from the phantom-id control (same code, no canary bytes) and A's state digest is unchanged; cluster procedures refuse without the cluster secret.",
   note="memdb; controls that cannot be built for a procedure are reported INCONCLUSIVE, never as held."),
 "C14": dict(level="exploration", tech="recorded-history monitor on one Document: canonical content recorded after every Update that pushed a history entry, compared at every position of random and exhaustively enumerated well-nested Undo/Redo walks; CanUndo/CanRedo, Root()==Marshal() after every call; all produced changes delivered through the wire codec to a fresh peer",
   text="Random programs of 3..40 Updates over the content alphabet (object set/delete incl. nested containers and containers created together with their first content, array add/insert/delete, text insert/delete/replace, counter increase, tree insert/delete inside one parent), with histories that start on existing content (ClearHistory) or on an empty document, refused Updates included; ALL programs of <=3 (array <=2) edits over reduced alphabets for text/array/tree/object with the full nested walk U^n R^n, U^k R^k. Oracle: content at every history position equals the recorded one, every Undo/Redo returns nil, CanUndo/CanRedo match the position, Root()==Marshal(), a fresh peer applies all produced changes and shows the author's content. Approximate kinds (styles, array move/set-by-index): never fail, clone==root, peer applies and agrees.",
   note="in-process, no server, no remote changes (C15 covers propagation); tree split/merge and dedup counters are outside the property's quantifier and not generated."),
 "C15": dict(level="exploration", tech="convergence oracle over exhaustively enumerated small-scope two-replica histories (edits x undo/redo x every sync placement, incl. macro events 'everybody syncs and collects' and 'one replica collects first') and random larger ones, on real Documents exchanging changes through an in-process change log that mirrors the server (wire codec, push order, minimum version vector => every pull garbage-collects); plus a fresh replica fed by the log alone",
   text="2 replicas, base document per family (text/array/tree/object+counter+nested array), ALL event sequences up to length 5 (thorough 6) over {edit_k by A or B from a reduced state-dependent C14 alphabet that always contains a deletion, undo/redo by A or B, sync A, sync B, round, lead A, lead B} with <=3 edits per replica and <=2 (3) undo/redo calls, in four configurations (collection on/off x histories cleared or not), every prefix evaluated; random 2..3-replica histories over the full generator alphabet. Oracle: no Update/Undo/Redo/sync errors or panics; after closing rounds and a final collection all replicas marshal byte-identically; a fresh replica built from the log shows the same canonical content.",
   note="in-process log, not the RPC server; failures whose precondition is one of four recorded findings (restore racing a concurrent edit, same identity restored twice, undo referring to an acknowledged tombstone, array insertion next to a tombstone under collection) are identified from the log / the author's state and reported as KNOWN-FINDING, everything else is a violation."),
 "C16": dict(level="exploration", tech="parallel storm on the real server under the Go race detector with seeded yield injection at storage calls and lock boundaries; monitors: no-progress watchdog with goroutine dump (deadlock), race-detector log scan, per-goroutine lock-order / re-entrancy recorder (verif-tagged hook), request-error classifier, C04's offline log oracle and convergence of the surviving replicas",
   text="5..12 goroutine clients x 1..3 documents run seeded mixes of Attach, PushPull (edits, empty, push-only), WatchDocument streams opened and cancelled, Detach + re-attach and Deactivation with documents attached (=> ClusterService.DetachDocument), while background goroutines run CompactDocument (normal/forced), the housekeeping compaction pass and BuildInternalDocForServerSeq, with the server's own snapshotting (threshold 3..10). Oracle: requests keep completing (30 s without any completion while some are outstanding = deadlock, parked goroutines listed), race detector silent, locks acquired in the order doc -> doc-pull -> doc-attachment -> doc-push and never re-entered, only protocol-allowed errors, C04 log oracle per uncompacted document, replicas whose closing syncs succeed converge.",
   note="memdb, single node; schedules are not replayable exactly (the replay command re-runs the same seeded workload); documents that were compacted are checked for convergence only."),
 "C17": dict(level="exploration", tech="tick-stamped event log of Subscribe/Unsubscribe/Publish/receive on a real pubsub.PubSub driven by subscriber and publisher goroutines (healthy, slow and stalled readers, early and late unsubscribes, bursts) under the race detector, offline checker 'a notification of X follows every publish of X on every subscription that was established before and stays long enough'; leak and own-event checks; plus WatchDocument streams on the live server against pushes",
   text="2..4 subscribers and 1..3 publishers on one document key; every call and receive is stamped from one atomic counter. For every publish and every healthy/slow subscription whose Subscribe returned before the publish call and whose Unsubscribe starts >= 4 s later, a DocChanged of that publisher must be received with a later tick or the channel be closed; ClientIDs() empty after all unsubscribed; no own events; no panic (send on closed channel kills the worker => reported by the parent). On the live server a WatchDocument stream must deliver a DOCUMENT_CHANGED of the pusher after each PushPull call within 5 s.",
   note="delivery bounds are wall clock (40-50 flush windows); stalled readers are pruned after 3 failed sends (pubsub.SetDefaultMaxConsecutivePublishFailures(3), as upstream's tests do)."),
 "C18": dict(level="exploration", tech="round-trip monitor on documents reached through generated histories and on generated YSON literals: export -> text -> parse -> text (stable), SetYSON into a new document -> export (equal), canonical content of the rebuilt document through a view that bypasses the exporter, and the rebuilt document's changes through the wire codec into a third document",
   text="Subject+peer histories over the full generator alphabet with scar steps (concurrent edits, GC, snapshot round trip), styles and style removal, non-BMP characters, nested containers, counters, plus values real documents hold (punctuation, the exporter's own keywords, {\"type\":\"paragraph\"} objects, control characters, 64-bit extremes); at sampled points the compaction/revision round trip is performed. Literal family: random YSON values of every type and nesting are marshalled, parsed, re-marshalled, set into a document and exported again.",
   note="in-process; packs.Compact's rebuild-compare on the live server is exercised on every compaction of C10; dedup counters that already counted are compared up to the rebuilt document only (F-DEDUP-HLL-OPS, pinned witness)."),
 "C19": dict(level="exploration", tech="exhaustive enumeration of upstream's five tree-concurrency matrices (1592 operation x range pairs x both log orders x both actor-id assignments x two authors of the initial tree = 12736 cases) on real Documents exchanging changes through the wire codec, with a change-fed and a snapshot-fed passive replica; convergence (ToXML) and Root()==Marshal() oracles",
   text="The matrices of test/complex/tree_concurrency_test.go (edit-edit, split-split, split-edit, style-style, edit-style), which upstream can only run with MongoDB and build tags and where a diverging pair is t.Skip()ped, are ported literally; every pair runs in both log orders, with both assignments of the greater actor id and with the initial tree written by the first editor or a third client; a fifth replica loads a snapshot taken between the two changes. Oracle: no operation or apply fails/panics; ToXML of both editors, of a replica fed by the log and of a replica decoded from the server-style snapshot are identical; Root()==Marshal() on every replica. A failing pair is reported under its name.",
   note="in-process exchange instead of the RPC server; exactly upstream's matrix, one operation per client."),
 "C20": dict(level="exploration", tech="reference-model monitor of the change-range cache (mongo.ChangeStore driven with mongo.Client's exact protocol against a ground-truth table, fetcher calls audited), the same under parallel readers with the race detector, and a change-fed shadow vs packs.BuildInternalDocForServerSeq on the live server under random request order, eviction, competing documents and caller-side mutation of the returned document",
   text="Random sequences of push / read(from,to) / evict / detach with presence-only holes: every read must return exactly the stored operation rows of its range in order plus the cached presence rows; the fetcher is never asked for a covered sequence number or outside the range. 4 readers + 1 pusher in parallel under -race. On the real server (snapshot interval 1..4, 2-entry snapshot cache, two competing documents) random BuildInternalDocForServerSeq(s) calls between the pushes of generated histories, each repeated after scribbling on the returned document, must equal a change-fed shadow at s.",
   note="ChangeStore is exercised directly because the surrounding mongo.Client needs a live MongoDB; the protocol around it is copied from client.go. pkg/cache wrappers are observed through these two users."),
 "C11": dict(level="exploration", tech="reference state machine vs the real RPC server over exhaustively enumerated call sequences (small scope) + sampled longer ones; side-effect observation of logs, client records and version-vector rows around every call",
   text="All sequences up to length 4 (quick) / 5 (thorough) over {Activate, Deactivate, Attach, failing Attach, PushPull, Detach, Remove} x 2 clients x 2 documents modulo renaming, all continuations of the both-attached prefix, and sampled sequences of length 6-8; accept/reject must equal the model, rejected calls leave no trace, accepted calls store exactly their changes (none after removal), rows/status follow the lifecycle.",
   note="memdb; version-vector rows read through verif-tagged accessor; Activate always creates a new client identity (as the server does); failing Attach modelled only from the never-attached state."),
}

# Families added after the first complete version; appended to the level text.
EXTRA = {
 "C01": " Tree edits include inline elements (mixed content); ranges stay inside one parent.",
 "C02": " Tree edits include inline elements (mixed content).",
 "C03": " Every fifth history has ONE writer that syncs seldom while its readers sync and collect (the fence of recorded finding F-RGA-PURGE is off there: nothing is concurrent), so the writer edits and moves next to tombstones its readers have purged. Tree edits include inline elements.",
 "C04": " Every eighth sync of the parallel family is in flight twice (a retransmission racing its original, recorded as an event of its own; the sequential model's append is idempotent per change id).",
 "C05": " sdk family: the real client.Client (manual sync) re-syncing after injected storage faults at random points; every edit appends a unique string to one array, so exactly-once is read off the content (no id twice, none missing, replicas equal).",
 "C07": " Trees include inline elements between texts (mixed content) and every cursor position inside a block is addressed; the index/path round trip is asserted only where paths are unambiguous (text-only or element-only parents).",
 "C08": " Structural monitors after every step on document and working copy: splay weights, insertion chains of text and tree-text pieces linked in offset order, every element registered at the root, a collection that purges nothing runs through.",
 "C10": " Stale clients push changes with operations, with operations and presence, and with presence only; in a third of the cases the second generation of the log outgrows the first before the second compaction.",
 "C12": " sdk family (every eighth case): the real client.Client - attach with and without WithPresence / WithDisablePresence (later attachers asking for the other setting), updates with and without presence, sync, push-only sync, detach and re-attach, deactivate - with the same oracle on MyPresence()/AllPresences() and on the stored log.",
 "C14": " Collection steps (the sync of the only attached client purges every tombstone) in the random families and as three variants of every exhaustive program (none / once before the undo walk / after every call); an approximate-array family (set-by-index, moves, deletions under collection); the structural monitors of C08 after every undo/redo/collect. Symptoms of recorded findings are counted and never end an enumeration.",
 "C15": " A 'tick' macro event (one replica makes an unrelated edit that everybody else pulls, which puts the others' Lamport clocks ahead of its own) gives both ticket orders of an undo against a concurrent edit. Every undo/redo that changes the author's document must leave a local change behind. Symptoms of recorded findings are counted and never end an enumeration (quick: 640 k histories). F-UNDO-AFTER-PURGE is identified from the execution: some replica re-created a node it had purged, and the replicas differ in placement only or a later edit followed.",
 "C16": " Every second storm runs in a project with an attachment limit (never reached), so that attach and detach take the doc-attachment locker.",
 "C17": " The watch family pushes through sync, push-only sync, Detach (edit, then detach) and Attach; the sdk-watch family runs real client.Client instances in realtime mode: an edit of one must show up in the documents of the others within 5 s without anybody calling Sync.",
 "C20": " Every second snapshot case ends with a compaction after which the new generation of the log outgrows the cached old one; rebuilds at the new head and around the old head must equal a change-fed shadow of the new log.",
}

NOT_YET = {
 "C07": "check under construction in this framework (reference-model monitor); not claimed yet",
 "C08": "check under construction; not claimed yet",
 "C09": "check under construction; not claimed yet",
 "C10": "check under construction; not claimed yet",
 "C11": "check under construction; not claimed yet",
 "C12": "check under construction; not claimed yet",
 "C13": "check under construction; not claimed yet",
 "C14": "check under construction; not claimed yet",
 "C15": "check under construction; not claimed yet",
 "C16": "check under construction; not claimed yet",
 "C17": "check under construction; not claimed yet",
 "C18": "check under construction; not claimed yet",
 "C19": "check under construction; not claimed yet",
 "C20": "check under construction; not claimed yet",
}

def main():
    checks = []
    for pid in sorted(CHECKS):
        c = CHECKS[pid]
        checks.append({
            "property_id": pid,
            "quick_cmd": "./check %s quick" % pid,
            "thorough_cmd": "./check %s thorough" % pid,
            "evidence_file": "evidence/%s.json" % pid,
            "replay_cmd_template": "./check %s --replay {path}" % pid,
            "engine": "vcheck",
            "level_claimed": {"category": c["level"], "text": c["text"] + EXTRA.get(pid, ""), "design_ref": "DESIGN.md section A.3 and section 2, %s" % pid},
            "level_note": c["note"],
            "technique": c["tech"],
        })
    na = [{"property_id": p, "reason": r} for p, r in sorted(NOT_YET.items()) if p not in CHECKS]
    m = {
        "version": 1,
        "setup_cmd": "./check --setup",
        "hooks": {
            "guard": "verif",
            "enable": "every check builds /repo with `go build -tags verif` (see ./check); hooks: lock-event recorder in server/backend/sync (verif_hook.go / verif_hook_off.go), Background/Backend.WaitIdle, read-only accessor VerifVersionVectors on the memory DB; known findings and fixed defects are listed in known_findings.json, pinned witnesses under known/",
            "baseline_off_cmd": "cd /repo && go build ./... && go test -vet=off -count=1 -timeout 25m ./...",
            "source_commits": HOOK_COMMITS,
            "add_only": True,
        },
        "engines": [{"name": "vcheck", "path": "cmd/vcheck", "serves_properties": sorted(CHECKS),
                     "kind_free_text": "Go harness: parent forks worker processes, each runs a real in-process yorkie server on memdb and drives generated/enumerated cases; monitors and offline checkers decide; writes evidence/<id>.json"}],
        "checks": checks,
        "not_applicable": na,
        "notes": "Known findings: known_findings.json (kind=finding: recorded, with pinned witness replays under known/; kind=fixed: repaired by the named fix: commit in /repo, suppresses nothing). All checks are runtime monitors over executions of the real code (see DESIGN.md). Exit 0 = held on everything explored (KNOWN-FINDING lines allowed), 1 = VIOLATION, 2 = harness fault / observation floor missed (inconclusive).",
    }
    json.dump(m, open("/verif/MANIFEST.json", "w"), indent=1)
    print("MANIFEST.json written:", len(checks), "checks,", len(na), "not claimed")

if __name__ == "__main__":
    main()
