#!/bin/bash
# tools/run_seed_wt.sh <seed-id> <check> [<check> ...]
# Like run_seed.sh, but applies the seeded change in a scratch worktree of /repo's HEAD
# (under /tmp, removed afterwards) and builds the checks against it (VERIF_REPO), so that
# /repo itself is never modified and several seeds can be run at the same time.
set -u
sid="$1"; shift
tier="${TIER:-quick}"
patch="/verif/seeded/$sid/patch.diff"
wt="/tmp/seedwt-$sid-$$"
git -C /repo worktree add -q --detach "$wt" HEAD || exit 2
trap 'git -C /repo worktree remove --force "$wt" 2>/dev/null; rm -rf "$wt"' EXIT
if ! git -C "$wt" apply --whitespace=nowarn "$patch" 2>/dev/null && ! git -C "$wt" apply --3way --whitespace=nowarn "$patch" 2>/dev/null; then
  echo "$sid: patch does not apply to current /repo HEAD"; exit 2
fi
cd /verif
for c in "$@"; do
  out=$(VERIF_REPO="$wt" VERIF_SEED="${VERIF_SEED:-1}" VERIF_EVIDENCE_DIR="$wt/.evidence" ./check "$c" "$tier" 2>&1); rc=$?
  nv=$(echo "$out" | grep -c '^VIOLATION')
  kinds=$(echo "$out" | grep '^  \[' | sed 's/^  \[[^]]*\] //; s/:.*//' | sort | uniq -c | sort -rn | head -4 | tr '\n' ';')
  line="$(date +%H:%M:%S) seed=$sid check=$c tier=$tier seed_env=${VERIF_SEED:-1} exit=$rc violations=$nv kinds=[$kinds] (scratch worktree)"
  echo "$line"; echo "$line" >> "/verif/seeded/$sid/detect.log"
done
