#!/bin/bash
# tools/sweep.sh <tier> <seed> [checks...] : runs checks sequentially, prints one summary line each.
tier="${1:-quick}"; seed="${2:-1}"; shift 2
checks="$@"; [ -z "$checks" ] && checks=$(python3 -c "import json;print(' '.join(c['property_id'] for c in json.load(open('MANIFEST.json'))['checks']))")
cd "$(dirname "$0")/.."
for c in $checks; do
  out=$(VERIF_SEED=$seed ./check $c $tier 2>&1); rc=$?
  echo "$(date +%H:%M:%S) $c $tier seed=$seed exit=$rc viol=$(echo "$out" | grep -c '^VIOLATION') known=$(echo "$out" | grep -c '^KNOWN-FINDING') :: $(echo "$out" | tail -1 | cut -c1-260)"
done
