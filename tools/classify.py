#!/usr/bin/env python3
"""classify.py <Cxx> [tier] [seed]: group the replays of the last run by (kind, family), show the shortest of each."""
import json,glob,collections,sys
cid=sys.argv[1]; tier=sys.argv[2] if len(sys.argv)>2 else 'quick'; seed=sys.argv[3] if len(sys.argv)>3 else '1'
c=collections.Counter(); ex={}
for f in sorted(glob.glob('/verif/replays/%s-%s-seed%s-*[0-9].json'%(cid,tier,seed))):
    d=json.load(open(f)); r=d['replay']
    fam=r.get('family','') if isinstance(r,dict) else ''
    k=(d['kind'],fam, r.get('gc') if isinstance(r,dict) else None)
    c[k]+=1; ex.setdefault(k,[]).append((len(r.get('steps',[])) if isinstance(r,dict) else 0,f))
for k,n in c.most_common():
    fs=sorted(ex[k]); print('==',k,n,fs[0][1]); d=json.load(open(fs[0][1])); print(d['detail'][:int(sys.argv[4]) if len(sys.argv)>4 else 900])
