#!/usr/bin/env python3
"""Confirm a seeded change independently in a scratch worktree of /repo HEAD.

usage: verify_seed.py <seed-out-dir> <seed-id> <property>
  seed-out-dir holds patch.diff, demo*_test.go, NOTES.md (written by a sub-agent)
Writes /verif/seeded/<seed-id>/{patch.diff,demo_test.go,NOTES.md,meta.json} when
 - the demo passes on the unmodified tree,
 - the patch applies and `go build ./...` succeeds,
 - the demo fails with the patch,
 - the whole existing suite passes with the patch (demo removed).
The scratch worktree is removed at the end.
"""
import json, os, re, shutil, subprocess, sys, glob, time

def sh(cmd, cwd, timeout=1800):
    env = dict(os.environ, GOFLAGS="-mod=mod", GOPROXY="off")
    p = subprocess.run(cmd, shell=True, cwd=cwd, env=env, stdout=subprocess.PIPE, stderr=subprocess.STDOUT, timeout=timeout)
    return p.returncode, p.stdout.decode(errors="replace")

def main():
    src, sid, prop = sys.argv[1], sys.argv[2], sys.argv[3]
    demos = sorted(glob.glob(os.path.join(src, "*_test.go")))
    patch = os.path.join(src, "patch.diff")
    if not demos or not os.path.exists(patch):
        print("missing demo or patch in", src); return 2
    demo = demos[0]
    head = open(demo).read(3000)
    m = re.search(r"((?:test|pkg|server|client|api|internal)/[\w\-/\.]+_test\.go)", head)
    if not m:
        print("cannot find placement path in demo header"); return 2
    place = m.group(1)
    m2 = re.search(r"(go test [^\n]*)", head)
    cmd = m2.group(1).strip() if m2 else "go test -vet=off -count=1 ./" + os.path.dirname(place) + "/"
    cmd = cmd.rstrip("`").strip()
    wt = "/tmp/vs-" + sid
    sh("git -C /repo worktree remove --force %s" % wt, "/")
    rc, out = sh("git -C /repo worktree add -q --detach %s HEAD" % wt, "/")
    if rc != 0:
        print(out); return 2
    meta = {"seed": sid, "property": prop, "demo_path": place, "demo_cmd": cmd, "verified_at_repo_head": sh("git rev-parse --short HEAD", "/repo")[1].strip()}
    ok = False
    try:
        os.makedirs(os.path.join(wt, os.path.dirname(place)), exist_ok=True)
        shutil.copy(demo, os.path.join(wt, place))
        rc, out = sh(cmd, wt)
        meta["demo_unmodified"] = "pass" if rc == 0 else "FAIL"
        meta["demo_unmodified_tail"] = out[-1500:]
        rc, out = sh("git apply --whitespace=nowarn %s" % patch, wt)
        if rc != 0:
            rc, out = sh("git apply --3way --whitespace=nowarn %s" % patch, wt)
        meta["patch_applies"] = rc == 0
        if rc != 0:
            meta["apply_error"] = out[-800:]
        else:
            rc, out = sh("go build ./...", wt)
            meta["builds"] = rc == 0
            rc, out = sh(cmd, wt)
            meta["demo_with_patch"] = "fail" if rc != 0 else "PASS"
            meta["demo_with_patch_tail"] = out[-1500:]
            os.remove(os.path.join(wt, place))
            rc, out = sh("go test -vet=off -count=1 -timeout 25m ./... 2>&1 | grep -v 'no test files' | grep -v '^ok' | tail -30", wt, timeout=2400)
            meta["suite_with_patch"] = "pass" if out.strip() == "" else "FAIL"
            meta["suite_tail"] = out[-1500:]
            ok = (meta["demo_unmodified"] == "pass" and meta["builds"] and meta["demo_with_patch"] == "fail" and meta["suite_with_patch"] == "pass")
    finally:
        sh("git -C /repo worktree remove --force %s" % wt, "/")
        sh("rm -rf %s" % wt, "/")
    meta["confirmed"] = ok
    dst = os.path.join("/verif/seeded", sid)
    os.makedirs(dst, exist_ok=True)
    if os.path.realpath(src) != os.path.realpath(dst):
        shutil.copy(patch, os.path.join(dst, "patch.diff"))
        shutil.copy(demo, os.path.join(dst, "demo_test.go"))
        if os.path.exists(os.path.join(src, "NOTES.md")):
            shutil.copy(os.path.join(src, "NOTES.md"), os.path.join(dst, "NOTES.md"))
    old = {}
    mp = os.path.join(dst, "meta.json")
    if os.path.exists(mp):
        old = json.load(open(mp))
    old.update(meta)
    json.dump(old, open(mp, "w"), indent=1)
    print(sid, "CONFIRMED" if ok else "NOT-CONFIRMED", {k: meta.get(k) for k in ("demo_unmodified", "patch_applies", "builds", "demo_with_patch", "suite_with_patch")})
    return 0 if ok else 1

if __name__ == "__main__":
    sys.exit(main())
