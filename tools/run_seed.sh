#!/bin/bash
# tools/run_seed.sh <seed-id> <check> [<check> ...]
# Applies /verif/seeded/<seed-id>/patch.diff to /repo, runs the given checks
# (quick tier unless TIER is set), reverts /repo, and appends the outcome to
# /verif/seeded/<seed-id>/detect.log. Never leaves the patch applied.
set -u
sid="$1"; shift
tier="${TIER:-quick}"
patch="/verif/seeded/$sid/patch.diff"
cd /repo || exit 2
if ! git diff --quiet; then echo "/repo has uncommitted changes; refusing"; exit 2; fi
if ! git apply --whitespace=nowarn "$patch" 2>/dev/null && ! git apply --3way --whitespace=nowarn "$patch" 2>/dev/null; then
  echo "$sid: patch does not apply to current /repo HEAD"; git checkout HEAD -- . ; exit 2
fi
trap 'git -C /repo checkout HEAD -- . ; git -C /repo clean -fdq -- test pkg server api client 2>/dev/null' EXIT
cd /verif
for c in "$@"; do
  out=$(VERIF_SEED="${VERIF_SEED:-1}" ./check "$c" "$tier" 2>&1); rc=$?
  nv=$(echo "$out" | grep -c '^VIOLATION')
  kinds=$(echo "$out" | grep '^  \[' | sed 's/^  \[[^]]*\] //; s/:.*//' | sort | uniq -c | sort -rn | head -4 | tr '\n' ';')
  line="$(date +%H:%M:%S) seed=$sid check=$c tier=$tier seed_env=${VERIF_SEED:-1} exit=$rc violations=$nv kinds=[$kinds]"
  echo "$line"; echo "$line" >> "/verif/seeded/$sid/detect.log"
done
