// vcheck is the single entry point of all checks.
//
//	vcheck <Cxx> <quick|thorough>
//	vcheck <Cxx> --replay <file>
//	vcheck --worker <Cxx> <tier> <seed> <shard> <nshards> <out> [idx,idx,...]
package main

import (
	"fmt"
	"os"
	"strconv"
	"strings"

	"verif/internal/props"
	"verif/internal/runner"
)

func main() {
	args := os.Args[1:]
	if len(args) >= 7 && args[0] == "--worker" {
		p, ok := props.Registry[args[1]]
		if !ok {
			fmt.Fprintln(os.Stderr, "unknown property", args[1])
			os.Exit(2)
		}
		seed, _ := strconv.ParseInt(args[3], 10, 64)
		shard, _ := strconv.Atoi(args[4])
		nshards, _ := strconv.Atoi(args[5])
		var only []int
		if len(args) >= 8 {
			for _, s := range strings.Split(args[7], ",") {
				n, _ := strconv.Atoi(s)
				only = append(only, n)
			}
		}
		os.Exit(runner.WorkerMain(p, args[2], seed, shard, nshards, args[6], only))
	}
	if len(args) >= 6 && args[0] == "--witness" {
		p, ok := props.Registry[args[1]]
		if !ok {
			os.Exit(2)
		}
		seed, _ := strconv.ParseInt(args[3], 10, 64)
		os.Exit(runner.WitnessMain(p, args[2], seed, args[4], args[5]))
	}
	if len(args) < 2 {
		fmt.Fprintln(os.Stderr, "usage: vcheck <Cxx> <quick|thorough> | vcheck <Cxx> --replay <file>")
		os.Exit(2)
	}
	p, ok := props.Registry[args[0]]
	if !ok {
		fmt.Fprintln(os.Stderr, "unknown property", args[0])
		os.Exit(2)
	}
	if args[1] == "--trace" {
		os.Exit(props.TraceFile(args[2]))
	}
	if args[1] == "--minimize" {
		if len(args) < 3 {
			os.Exit(2)
		}
		os.Exit(props.MinimizeFile(p, args[2]))
	}
	if args[1] == "--replay" {
		if len(args) < 3 {
			os.Exit(2)
		}
		os.Exit(runner.ReplayMain(p, args[2]))
	}
	os.Exit(runner.ParentMain(p, args[1], args[2:]))
}
